#!/bin/sh
# tools_seed.sh <seed-dir> <tier> <PROP> [PROP...] : applies the seeded change to /repo, runs its demo and the given checks, reverts.
SD=$1; TIER=$2; shift 2
cd /repo || exit 2
git diff --quiet || { echo "/repo not clean"; exit 2; }
git apply --check "$SD/patch.diff" 2>/dev/null || { echo "PATCH DOES NOT APPLY: $SD"; exit 3; }
git apply "$SD/patch.diff"
trap 'git -C /repo checkout -- . ' EXIT
PYTHONPATH=/repo /venv/bin/python "$SD/demo.py" >/dev/shm/seed_demo.out 2>&1; echo "demo exit (with change) = $?"
for P in "$@"; do
  /verif/check $P --tier $TIER > /dev/shm/seed_$P.out 2>&1; rc=$?
  echo "check $P rc=$rc: $(grep -c '^VIOLATION' /dev/shm/seed_$P.out) violation lines; $(grep '^VIOLATION' /dev/shm/seed_$P.out | head -2 | cut -c1-200)"
done
