#!/bin/sh
# tools_seedvalidate.sh <seed-dir> [outdir]
# Confirms a candidate seeded change in a scratch worktree of /repo (outside /repo and /verif):
#   demo passes on the clean tree, patch applies, demo fails with the patch, all 255 baseline tests still pass.
# Writes <outdir>/<name>.txt with one line per step; removes the worktree afterwards.
SD=$(cd "$1" && pwd); NAME=$(basename "$SD"); OUT=${2:-/dev/shm/seedval}; mkdir -p "$OUT"
WT=/dev/shm/wt-$NAME
R="$OUT/$NAME.txt"; : > "$R"
git -C /repo worktree remove --force "$WT" >/dev/null 2>&1
git -C /repo worktree add --detach "$WT" HEAD >/dev/null 2>&1 || { echo "worktree_failed" >> "$R"; exit 2; }
cleanup() { git -C /repo worktree remove --force "$WT" >/dev/null 2>&1; rm -rf "$WT"; }
trap cleanup EXIT
cd "$WT" || exit 2
DEMO=$(ls "$SD"/demo* | head -1)
run_demo() { (cd /dev/shm && PYTHONDONTWRITEBYTECODE=1 PYTHONPATH="$WT" timeout 600 /venv/bin/python "$DEMO" > "$OUT/$NAME.$1.log" 2>&1; echo $?); }
echo "demo_clean_rc=$(run_demo clean)" >> "$R"
if git apply --check "$SD/patch.diff" 2>/dev/null; then echo "applies=1" >> "$R"; else echo "applies=0" >> "$R"; exit 3; fi
git apply "$SD/patch.diff"
echo "demo_patched_rc=$(run_demo patched)" >> "$R"
PYTHONDONTWRITEBYTECODE=1 PYTHONPATH="$WT" env -u NIXPY_VERIF timeout 1500 /venv/bin/python -m pytest -q -p no:cacheprovider --timeout=900 --continue-on-collection-errors --junitxml="$OUT/$NAME.junit.xml" > "$OUT/$NAME.pytest.log" 2>&1
/venv/bin/python - "$OUT/$NAME.junit.xml" >> "$R" <<'PY'
import json,sys,xml.etree.ElementTree as ET
base=json.load(open('/root/.vp/BASELINE.json'))
ok=set()
for tc in ET.parse(sys.argv[1]).getroot().iter('testcase'):
    name=tc.get('classname')+'::'+tc.get('name')
    if not any(ch.tag in('failure','error','skipped') for ch in tc): ok.add(name)
missing=[t for t in base['stable_pass'] if t not in ok]
print("baseline_pass=%d/%d"%(len(base['stable_pass'])-len(missing),len(base['stable_pass'])))
for m in missing: print("BROKEN "+m)
PY
cat "$R" | tr '\n' ' '; echo " [$NAME]"
