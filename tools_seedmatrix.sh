#!/bin/sh
# tools_seedmatrix.sh [tier] [parallel] : runs every seeded change (seeded/<id>/) against the check of its property in
# a scratch worktree and rewrites seeded/RESULTS.tsv (seed, property, exit status, seconds, first violation keys).
TIER=${1:-quick}; PAR=${2:-3}
cd "$(dirname "$0")"
ls -d seeded/c*/ | xargs -P $PAR -I{} ./tools_seedrun.sh {} $TIER > /dev/shm/seedmatrix.log 2>&1
sort /dev/shm/seedmatrix.log | awk '{print}' > seeded/RESULTS.txt
cat seeded/RESULTS.txt
