#!/usr/bin/env python3
"""Rebuilds seeded/RESULTS.txt from the logs tools_seedrun.sh leaves in /dev/shm/seedrun (one row per seed x check run):
seed, property of the seed, check that was run, outcome of that check on the seeded tree, number of violation classes,
first violation keys, and when the run was made (harness state of that time)."""
import glob, json, os, re, time
rows = []
for n in sorted(d for d in os.listdir(os.path.join(os.path.dirname(os.path.abspath(__file__)), "seeded")) if re.match(r"c\d\d-\d$", d)):
    prop = json.load(open(os.path.join(os.path.dirname(os.path.abspath(__file__)), "seeded", n, "meta.json")))["property"]
    for f in sorted(glob.glob("/dev/shm/seedrun/%s.*.log" % n)):
        P = f.split(".")[-2]
        txt = open(f, errors="replace").read()
        nv = len(re.findall(r"^VIOLATION", txt, re.M))
        keys = re.findall(r"^  key=(\S+)", txt, re.M)[:2]
        status = "DETECTED" if re.search(r"%s FAILED" % P, txt) else ("not-detected" if re.search(r"%s ok tier" % P, txt) else "incomplete")
        when = time.strftime("%m-%d %H:%M", time.localtime(os.path.getmtime(f)))
        rows.append("%s seed-of=%s check=%s %s classes=%d run=%s  %s" % (n, prop, P, status, nv, when, " ".join(keys)[:200]))
open(os.path.join(os.path.dirname(os.path.abspath(__file__)), "seeded", "RESULTS.txt"), "w").write(
    "# one row per (seeded change, check) run with tools_seedrun.sh (quick tier) in a scratch worktree of /repo; a seed counts as\n"
    "# detected when at least one row says DETECTED.  'run' is when that row was produced: the checks only grew afterwards.\n"
    + "\n".join(rows) + "\n")
print(len(rows), "rows")
