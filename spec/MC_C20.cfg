SPECIFICATION Spec
CONSTANTS
  Names = {"n1", "n2", "n3"}
  Vals = {1}
  MaxObj = 32
  MaxDepth = 21
  MaxClock = 1
  Limit <- Limit_Copy
  Ops = {"create", "copy", "attr", "data", "delete", "link"}
  Faults = {"NameExists"}
  Script <- Script_Copy
  CopyKeep = {FALSE}
VIEW View
INVARIANT TypeOK
INVARIANT NameUnique
INVARIANT EidUnique
INVARIANT NoDangling
INVARIANT LinkKindAndBlock
INVARIANT RoleKindOK
PROPERTY RefusedUnchanged
PROPERTY DeleteFrame
PROPERTY CopyComplete
PROPERTY CopyIndependent
ACTION_CONSTRAINT Export
CHECK_DEADLOCK FALSE
