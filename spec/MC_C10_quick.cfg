SPECIFICATION Spec
CONSTANTS
  Names = {"n1", "n2"}
  Cands <- CandsQ
  MaxLen = 4
  MaxDepth = 3
  AttrNames <- NoAttrs
  AttrVals = {1, 2}
  Ops = {"extend", "subs", "faults"}
VIEW View
INVARIANT TypeOK
INVARIANT Homogeneous
INVARIANT DictConsistent
PROPERTY RefusedUnchanged
PROPERTY DtypeFixed
PROPERTY ExtendIsConcat
PROPERTY WriteFrame
ACTION_CONSTRAINT Export
CHECK_DEADLOCK FALSE
