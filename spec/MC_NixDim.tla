----------------------------- MODULE MC_NixDim -----------------------------
(* Constant definitions for the NixDim configurations (TLC's cfg syntax has *)
(* no negative literals, so sets with negative members are defined here).   *)
EXTENDS NixDim

Q_Offsets    == {-8, -3, -1, 0, 1, 2, 4, 7}
Q_SampledPos == {-12,-9,-8,-7,-4,-3,-2,-1,0,1,2,3,4,5,6,7,8,9,10,12,13,16,19,24,40}
Q_RangePos   == -2..8
Q_SetPos     == {-4,-1,0,1,3,4,5,8,11,12,13,16,20}

T_Offsets    == -8..8
T_SampledPos == -12..40
T_RangePos   == -2..10
T_SetPos     == -4..20

\* large offsets relative to the interval (grid 1/1024): interval 2/1024, offsets +-4096 and 40960;
\* positions on and between samples around the offset
B_Offsets    == { 4194304, -4194304, 41943040 }
B_SampledPos == -3..9
=============================================================================
