------------------------------ MODULE NixOpen -------------------------------
(***************************************************************************)
(* File.open: open modes and format-version gating (property C11).         *)
(*                                                                         *)
(* A configuration is what is on disk before the call: nothing, or a file  *)
(* with a header [format tag, version triple, file id].  A query is the    *)
(* open mode.  The result is the outcome class of File.open and what the   *)
(* file must look like afterwards.                                         *)
(*                                                                         *)
(* Function-like module: Init = configurations, Next = modes.              *)
(***************************************************************************)
EXTENDS Integers, Sequences, FiniteSets, TLC, Json

CONSTANTS
    Lib,          \* the library's format version <<x, y, z>>
    Versions,     \* version triples on disk
    Formats,      \* "nix", "other", "missing"
    Ids           \* "valid", "invalid", "missing"

Modes == { "ro", "rw", "ow" }
Nil == [kind |-> "nil"]

Configs == { [exists |-> FALSE] } \cup
           { [exists |-> TRUE, format |-> f, ver |-> v, id |-> i] : f \in Formats, v \in Versions, i \in Ids }

\* lexicographic order on triples
Geq(a, b) == \/ a[1] > b[1]
             \/ (a[1] = b[1] /\ a[2] > b[2])
             \/ (a[1] = b[1] /\ a[2] = b[2] /\ a[3] >= b[3])

CanWrite(v) == v = Lib
CanRead(v)  == v[1] = Lib[1] /\ v[2] <= Lib[2]
NeedsId(v)  == Geq(v, << 1, 2, 0 >>)

\* outcome classes:
\*   "fresh"     a new, empty file with the library's header and a new id   (created or truncated)
\*   "opened"    the existing file, content untouched
\*   "missing"   error: nothing to open read-only
\*   "invalid"   error: not a NIX file
\*   "version"   error: format version not usable in this mode
\*   "noid"      error: format >= 1.2.0 without a valid file id
Gate(c, m) ==
    IF m = "ow" THEN "fresh"
    ELSE IF ~c.exists THEN (IF m = "ro" THEN "missing" ELSE "fresh")
    ELSE IF c.format # "nix" THEN "invalid"
    ELSE IF m = "rw" /\ ~CanWrite(c.ver) THEN "version"
    ELSE IF m = "ro" /\ ~CanRead(c.ver) THEN "version"
    ELSE IF NeedsId(c.ver) /\ c.id # "valid" THEN "noid"
    ELSE "opened"

IsError(o) == o \in { "missing", "invalid", "version", "noid" }

VARIABLES cfg, q, r
vars == << cfg, q, r >>
Init == cfg \in Configs /\ q = Nil /\ r = Nil
Next == /\ q.kind = "nil"
        /\ \E m \in Modes : q' = [kind |-> "open", mode |-> m]
                            /\ r' = [outcome |-> Gate(cfg, m),
                                     \* what must be on disk afterwards
                                     keeps |-> (cfg.exists /\ m # "ow")]
        /\ UNCHANGED cfg
Spec == Init /\ [][Next]_vars

(***************************************************************************)
(* laws                                                                    *)
(***************************************************************************)
IsOpen == q.kind = "open"

\* whatever can be opened for writing can be opened for reading
WritableImpliesReadable == (IsOpen /\ cfg.exists) => (Gate(cfg, "rw") = "opened" => Gate(cfg, "ro") = "opened")

\* overwrite never fails and never keeps anything; an existing file is never truncated by the other modes
OverwriteEmpties == (IsOpen /\ q.mode = "ow") => (r.outcome = "fresh" /\ ~r.keeps)
OthersKeep == (IsOpen /\ q.mode # "ow" /\ cfg.exists) => (r.keeps /\ r.outcome # "fresh")

\* only a missing file is created, and never by a read-only open
CreateOnlyIfMissing == (IsOpen /\ r.outcome = "fresh" /\ q.mode # "ow") => (~cfg.exists /\ q.mode = "rw")

\* readability is monotone in the minor version: an older minor of the same major is readable too
MinorMonotone == (IsOpen /\ cfg.exists /\ q.mode = "ro" /\ r.outcome = "opened") =>
    \A y \in 0..cfg.ver[2] :
        LET c2 == [cfg EXCEPT !.ver = << cfg.ver[1], y, cfg.ver[3] >>] IN
        Gate(c2, "ro") \in { "opened", "noid" }

\* a foreign format tag is refused in every non-truncating mode, whatever the rest of the header says
ForeignRefused == (IsOpen /\ cfg.exists /\ cfg.format # "nix" /\ q.mode # "ow") => r.outcome = "invalid"

Export == PrintT(<<"TX", ToJson([lib |-> Lib, cfg |-> cfg, q |-> q', r |-> r'])>>)
=============================================================================
