SPECIFICATION Spec
CONSTANTS
  InitShapes <- C15_Shapes
  MaxCells = 8
  AppendLens = {1}
  ResizeTo = {2}
  AssignExprs <- AE
  CoefSets <- C15_Coefs
  Origins <- C15_Origins
  MaxDepth = 5
  Ops = {"write", "assign", "append", "calib"}
VIEW View
INVARIANT ShapeOK
PROPERTY RefusedUnchanged
PROPERTY CalibrationLeavesRaw
PROPERTY AppendPreserves
PROPERTY ResizePreserves
PROPERTY AssignFrame
ACTION_CONSTRAINT Export
CHECK_DEADLOCK FALSE
