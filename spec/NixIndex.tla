------------------------------ MODULE NixIndex ------------------------------
(***************************************************************************)
(* Test vectors for property C06: (shape, optional view window, index      *)
(* expression) -> the cells that must be read / assigned, or an error.     *)
(* Function-like module: Init = (shape, window) configurations, Next =     *)
(* expressions; every terminal state is one vector.                        *)
(***************************************************************************)
EXTENDS NixIndexing, TLC, Json

CONSTANTS
    Shapes,        \* set of shapes (sequences of extents)
    WinStarts,     \* window starts tried per dimension (on top of the no-view configuration)
    WinExtents,    \* window extents tried per dimension
    IntVals,       \* integer components
    SliceVals,     \* start / stop values of slices (NONE is added)
    StepVals,      \* steps (NONE is added)
    MaxExprs       \* 0 = all expressions; otherwise only expressions with at most this many non-full components

Nil == [kind |-> "nil"]

Comps == { CInt(k) : k \in IntVals }
         \cup { CSlice(a, b, s) : a \in SliceVals \cup {NONE}, b \in SliceVals \cup {NONE}, s \in StepVals \cup {NONE} }

SeqsOf(S, n) == [1..n -> S]
InsertAt(e, p) == SubSeq(e, 1, p - 1) \o << CEll >> \o SubSeq(e, p, Len(e))
NonTrivial(e) == Cardinality({ i \in 1..Len(e) : e[i] # CFull })

\* all expressions for a rank: 1..rank components, optionally one ellipsis anywhere; and rank+1 ints (too many)
Exprs(rank) ==
    LET plain == UNION { SeqsOf(Comps, n) : n \in 1..rank }
        few   == IF MaxExprs = 0 THEN plain ELSE { e \in plain : NonTrivial(e) <= MaxExprs }
        short == UNION { SeqsOf(Comps, n) : n \in 0..(rank - 1) }
        shortfew == IF MaxExprs = 0 THEN short ELSE { e \in short : NonTrivial(e) <= MaxExprs }
        ell   == UNION { { InsertAt(e, p) : p \in 1..(Len(e) + 1) } : e \in shortfew }
    IN  few \cup ell

Windows(sh) == { w \in [1..Len(sh) -> { [s |-> s, e |-> e] : s \in WinStarts, e \in WinExtents }] : TRUE }

Configs == { [shape |-> sh, view |-> FALSE, win |-> << >>] : sh \in Shapes }
           \cup UNION { { [shape |-> sh, view |-> TRUE, win |-> w] : w \in Windows(sh) } : sh \in Shapes }

Expected(c, e) ==
    IF c.view
      THEN IF ViewValid(c.win, c.shape) THEN ViewResolve(c.win, e) ELSE [ok |-> FALSE, dims |-> << >>]
      ELSE Resolve(e, c.shape)

VARIABLES cfg, q, r
vars == << cfg, q, r >>

Init == cfg \in Configs /\ q = Nil /\ r = Nil
Next == /\ q.kind = "nil"
        /\ \E e \in Exprs(Len(cfg.shape)) :
              q' = [kind |-> "expr", e |-> e] /\ r' = Expected(cfg, e)
        /\ UNCHANGED cfg
Spec == Init /\ [][Next]_vars

(***************************************************************************)
(* laws                                                                    *)
(***************************************************************************)
Done == q.kind = "expr"

\* resolved indices lie inside the array, ascend strictly, and ints select exactly one
InSpace == (Done /\ r.ok) =>
    \A d \in 1..Len(cfg.shape) :
        LET ix == r.dims[d].idx IN
        /\ \A j \in 1..Len(ix) : 0 <= ix[j] /\ ix[j] < cfg.shape[d]
        /\ \A j \in 1..(Len(ix) - 1) : ix[j] < ix[j + 1]
        /\ r.dims[d].drop => Len(ix) = 1

\* through a view nothing outside the window is ever addressed
InWindow == (Done /\ r.ok /\ cfg.view) =>
    \A d \in 1..Len(cfg.shape) : \A j \in 1..Len(r.dims[d].idx) :
        cfg.win[d].s <= r.dims[d].idx[j] /\ r.dims[d].idx[j] < cfg.win[d].s + cfg.win[d].e

\* an error comes from an out-of-range integer (or too many indices, or an invalid view), never from a slice
ErrorOnlyFromInts == (Done /\ ~r.ok /\ (~cfg.view \/ ViewValid(cfg.win, cfg.shape))) =>
    LET sh == IF cfg.view THEN ViewShape(cfg.win) ELSE cfg.shape IN
    \/ NonEll(q.e) > Len(sh)
    \/ \E d \in 1..Len(sh) : LET x == Expand(q.e, Len(sh)) IN x[d].t = "int" /\ ~IntInRange(sh[d], x[d].i)

\* a view onto the whole array behaves like the array
WholeWindow == (Done /\ cfg.view /\ ViewValid(cfg.win, cfg.shape)
                /\ \A d \in 1..Len(cfg.shape) : cfg.win[d].s = 0 /\ cfg.win[d].e = cfg.shape[d]) =>
    r = Resolve(q.e, cfg.shape)

\* composition: the view's selection is the array's selection of the shifted cells of the window
Composition == (Done /\ r.ok /\ cfg.view) =>
    LET inner == Resolve(q.e, ViewShape(cfg.win)) IN
    \A d \in 1..Len(cfg.shape) : \A j \in 1..Len(r.dims[d].idx) :
        r.dims[d].idx[j] = inner.dims[d].idx[j] + cfg.win[d].s

Export == PrintT(<<"TX", ToJson([cfg |-> cfg, q |-> q', r |-> r'])>>)
=============================================================================
