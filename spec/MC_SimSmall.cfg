SPECIFICATION Spec
CONSTANTS
  Names = {"n1", "n2"}
  Vals = {1, 2}
  MaxObj = 6
  MaxDepth = 24
  MaxClock = 1
  Limit <- Limit_Small
  Ops = {"create", "link", "attr"}
  Faults = {"NotMember"}
  Script <- Script_Small
  CopyKeep = {}
VIEW View
ACTION_CONSTRAINT ExportSim
CHECK_DEADLOCK FALSE
