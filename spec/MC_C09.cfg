SPECIFICATION Spec
CONSTANTS
  CrossPrefixes = {"", "m", "k", "da"}
  CompoundPool = {"mV", "Hz", "s^-1", "kg^2", "Ohm", "mol"}
  MaxCompound = 4
  Kinds = {"unit", "compound"}
INVARIANT Composes
INVARIANT Inverts
INVARIANT Reflexive
INVARIANT RatioToPower
INVARIANT ScalableIffSame
\* GrammarUnambiguous is constant-level: stated as ASSUME in the module
ACTION_CONSTRAINT Export
CHECK_DEADLOCK FALSE
