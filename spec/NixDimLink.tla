----------------------------- MODULE NixDimLink -----------------------------
(***************************************************************************)
(* Dimension descriptors of one array ("host") and their links to other    *)
(* arrays (second sentence of property C05; refused calls serve C12).      *)
(*                                                                         *)
(*   targets  [T -> [rank, data, unit, label]]   arrays a descriptor can   *)
(*            be linked to; data / unit / label are version tokens         *)
(*   dims     sequence of descriptors of the host                          *)
(*            [k      "sampled" | "range" | "set"                          *)
(*             own    token of the explicitly stored ticks / labels, 0=none*)
(*             lab, un  own label / unit tokens (0 = None)                 *)
(*             lnk    linked target or NoLink                              *)
(*             idx    index specification: exactly one -1 marks the vector *)
(*                    that provides the values]                            *)
(*                                                                         *)
(* A linked range dimension reports the target's CURRENT vector as ticks   *)
(* and the target's unit and label as its own; a linked set dimension      *)
(* reports the vector as labels.  Setting explicit ticks replaces the link *)
(* and linking removes the explicit ticks.                                 *)
(***************************************************************************)
EXTENDS Integers, Sequences, FiniteSets, TLC, Json

CONSTANTS Targets,      \* target identities
          RankOf,       \* [Targets -> 0..2]   (a rank-2 target is 2 x 3; rank 0 stands for a DATA FRAME with two
                        \*                      numeric columns of 3 rows: its index specification is the column number,
                        \*                      its unit a pair of per-column units, its label the column's name)
          Toks,         \* value tokens 1..n
          MaxDims, MaxDepth, Ops

NoLink == "none"
VARIABLES targets, dims, act, hist
vars == << targets, dims, act, hist >>
State == << targets, dims >>
\* the view keeps one history per state AND per "the last call was refused": every call is also explored right after a
\* refused one (a refusal stutters, but what it leaves behind in the implementation's session would show next)
View == << State, act.out # "ok" >>

CanStep == Len(hist) < MaxDepth
Log(a) == act' = a /\ hist' = Append(hist, a)
Refuse(a) == Log(a) /\ UNCHANGED << targets, dims >>

\* legal index specifications for a target: its rank, exactly one -1, no other negative entry
IsFrame(t) == RankOf[t] = 0
ColLabel(c) == 10 + c          \* label token standing for the name of column c
GoodIdx(t) == IF IsFrame(t) THEN { << 0 >>, << 1 >> }
              ELSE IF RankOf[t] = 1 THEN { << -1 >> }
              ELSE { << -1, j >> : j \in 0..2 } \cup { << i, -1 >> : i \in 0..1 }
BadIdx(t) == IF IsFrame(t) THEN { << 2 >>, << -1 >> }
             ELSE IF RankOf[t] = 1 THEN { << >>, << 0 >>, << -1, -1 >>, << -1, 0 >> }
             ELSE { << -1 >>, << -1, -1 >>, << 0, 1 >>, << -1, -2 >>, << 0, -1, 0 >> }

NewDim(k) == [k |-> k, own |-> IF k = "sampled" THEN 0 ELSE 1, lab |-> 0, un |-> 0, lnk |-> NoLink, idx |-> << >>]

AppendDim(k) ==
    /\ CanStep /\ Len(dims) < MaxDims
    /\ dims' = Append(dims, NewDim(k))
    /\ Log([name |-> "AppendDim", k |-> k, out |-> "ok"]) /\ UNCHANGED targets

\* a descriptor appended with an argument of the wrong kind is refused - and must not be there afterwards
BadAppends == { << "sampled", "interval_text" >>, << "sampled", "unit_type" >>, << "sampled", "label_type" >>,
                << "range", "ticks_unsorted" >>, << "range", "ticks_text" >>, << "range", "unit_type" >>,
                << "range", "label_type" >>, << "set", "labels_nonstring" >> }
AppendDimBad(b) ==
    /\ CanStep /\ Len(dims) < MaxDims /\ "faults" \in Ops
    /\ Refuse([name |-> "AppendDimBad", k |-> b[1], why |-> b[2], out |-> "refused:BadArgument"])

\* ticks of a range dimension / labels of a set dimension, given explicitly
SetOwn(i, v) ==
    LET a == [name |-> "SetOwn", i |-> i, k |-> dims[i].k, v |-> v, out |-> "ok"] IN
    /\ CanStep /\ i \in 1..Len(dims) /\ dims[i].k \in { "range", "set" }
    /\ IF dims[i].k = "set" /\ dims[i].lnk # NoLink
         THEN "faults" \in Ops /\ Refuse([a EXCEPT !.out = "refused:Linked"])      \* labels of a linked set dimension
         ELSE /\ dims' = [dims EXCEPT ![i].own = v, ![i].lnk = NoLink, ![i].idx = << >>]   \* explicit ticks replace the link
              /\ Log(a) /\ UNCHANGED targets

\* unordered ticks are refused
SetTicksUnordered(i) ==
    /\ CanStep /\ i \in 1..Len(dims) /\ dims[i].k = "range" /\ "faults" \in Ops
    /\ Refuse([name |-> "SetTicksUnordered", i |-> i, out |-> "refused:Unordered"])

\* label / unit set through the descriptor: a linked RANGE dimension stores them on the target
SetAttr(i, f, v) ==
    LET a == [name |-> "SetAttr", i |-> i, k |-> dims[i].k, f |-> f, v |-> v, linked |-> dims[i].lnk # NoLink, out |-> "ok"] IN
    /\ CanStep /\ i \in 1..Len(dims) /\ v \in Toks
    /\ (dims[i].k = "set") => f = "lab"
    /\ IF dims[i].k = "range" /\ dims[i].lnk # NoLink /\ IsFrame(dims[i].lnk)
         THEN \* linked to a column of a data frame: the label is the column's name and cannot be set, the unit is the column's
              IF f = "lab" THEN "faults" \in Ops /\ Refuse([a EXCEPT !.out = "refused:FrameLabel"])
              ELSE /\ targets' = [targets EXCEPT ![dims[i].lnk].unit[dims[i].idx[1] + 1] = v]
                   /\ UNCHANGED dims /\ Log(a)
       ELSE IF dims[i].k = "range" /\ dims[i].lnk # NoLink
         THEN /\ targets' = [targets EXCEPT ![dims[i].lnk] = IF f = "lab" THEN [@ EXCEPT !.label = v] ELSE [@ EXCEPT !.unit = v]]
              /\ UNCHANGED dims /\ Log(a)
         ELSE /\ dims' = [dims EXCEPT ![i] = IF f = "lab" THEN [@ EXCEPT !.lab = v] ELSE [@ EXCEPT !.un = v]]
              /\ UNCHANGED targets /\ Log(a)

Link(i, t, ix) ==
    LET a == [name |-> "Link", i |-> i, k |-> dims[i].k, t |-> t, idx |-> ix, out |-> "ok"] IN
    /\ CanStep /\ i \in 1..Len(dims)
    /\ IF dims[i].k = "sampled" THEN "faults" \in Ops /\ ix \in GoodIdx(t) /\ Refuse([a EXCEPT !.out = "refused:Unsupported"])
       ELSE IF ix \notin GoodIdx(t) THEN "faults" \in Ops /\ Refuse([a EXCEPT !.out = "refused:BadIndex"])
       ELSE /\ dims' = [dims EXCEPT ![i].lnk = t, ![i].idx = ix,
                                    ![i].own = IF dims[i].k = "range" THEN 0 ELSE @]     \* linking removes explicit ticks
            /\ Log(a) /\ UNCHANGED targets

Unlink(i) ==
    LET a == [name |-> "Unlink", i |-> i, out |-> "ok"] IN
    /\ CanStep /\ i \in 1..Len(dims)
    /\ IF dims[i].lnk = NoLink THEN "faults" \in Ops /\ Refuse([a EXCEPT !.out = "refused:NoLink"])
       ELSE dims' = [dims EXCEPT ![i].lnk = NoLink, ![i].idx = << >>] /\ Log(a) /\ UNCHANGED targets

\* the target changes (through its own handle): data, unit, label
WriteTarget(t, f, v) ==
    /\ CanStep /\ (IsFrame(t) => f = "data") /\ v # targets[t][f]
    /\ targets' = [targets EXCEPT ![t][f] = v]
    /\ Log([name |-> "WriteTarget", t |-> t, f |-> f, v |-> v, out |-> "ok"]) /\ UNCHANGED dims

DeleteDims ==
    /\ CanStep /\ dims # << >>
    /\ dims' = << >> /\ Log([name |-> "DeleteDims", out |-> "ok"]) /\ UNCHANGED targets

Init == /\ targets = [t \in Targets |-> [rank |-> RankOf[t], data |-> 1, unit |-> IF IsFrame(t) THEN << 0, 0 >> ELSE 0, label |-> 0]]
        /\ dims = << >> /\ act = [name |-> "Init", out |-> "ok"] /\ hist = << >>

Next ==
    \/ \E k \in { "sampled", "range", "set" } : AppendDim(k)
    \/ \E b \in BadAppends : AppendDimBad(b)
    \/ \E i \in 1..MaxDims, v \in Toks : SetOwn(i, v)
    \/ \E i \in 1..MaxDims : SetTicksUnordered(i)
    \/ \E i \in 1..MaxDims, f \in { "lab", "un" }, v \in Toks : SetAttr(i, f, v)
    \/ \E i \in 1..MaxDims, t \in Targets : \E ix \in GoodIdx(t) \cup BadIdx(t) : Link(i, t, ix)
    \/ \E i \in 1..MaxDims : Unlink(i)
    \/ ("target" \in Ops /\ \E t \in Targets, f \in { "data", "unit", "label" }, v \in Toks \cup {0} :
            (f = "data" => v # 0) /\ WriteTarget(t, f, v))
    \/ ("deletedims" \in Ops /\ DeleteDims)

Spec == Init /\ [][Next]_vars

(***************************************************************************)
(* what a descriptor reports                                               *)
(***************************************************************************)
Linked(d) == d.lnk # NoLink
\* values: << "own", token >> or << "vector", target, data token, idx >>
ValuesOf(tg, d) == IF Linked(d) THEN [src |-> "vector", t |-> d.lnk, data |-> tg[d.lnk].data, idx |-> d.idx]
                   ELSE [src |-> "own", tok |-> d.own]
UnitOf(tg, d)  == IF d.k = "range" /\ Linked(d)
                    THEN (IF IsFrame(d.lnk) THEN tg[d.lnk].unit[d.idx[1] + 1] ELSE tg[d.lnk].unit) ELSE d.un
LabelOf(tg, d) == IF d.k = "range" /\ Linked(d)
                    THEN (IF IsFrame(d.lnk) THEN ColLabel(d.idx[1]) ELSE tg[d.lnk].label) ELSE d.lab
Report(tg, ds) == [i \in 1..Len(ds) |->
    [k |-> ds[i].k, linked |-> Linked(ds[i]), values |-> ValuesOf(tg, ds[i]),
     unit |-> UnitOf(tg, ds[i]), label |-> LabelOf(tg, ds[i]), idx |-> ds[i].idx]]

(***************************************************************************)
(* invariants and action properties                                        *)
(***************************************************************************)
\* explicit ticks and a link exclude each other on a range dimension
TicksXorLink == \A i \in 1..Len(dims) : dims[i].k = "range" => ~(dims[i].own # 0 /\ Linked(dims[i]))
\* only range and set dimensions are ever linked, with a legal index
LinkOK == \A i \in 1..Len(dims) : Linked(dims[i]) => (dims[i].k # "sampled" /\ dims[i].idx \in GoodIdx(dims[i].lnk))

Refused == act'.out # "ok"
RefusedUnchanged == [][Refused => State' = State]_vars
\* aliasing: whatever changes on a target is what every descriptor linked to it reports, immediately
AliasReports == [][act'.name = "WriteTarget" =>
    \A i \in 1..Len(dims) : Linked(dims[i]) /\ dims[i].lnk = act'.t =>
        /\ ValuesOf(targets', dims'[i]).data = targets'[act'.t].data
        /\ ((dims[i].k = "range" /\ ~IsFrame(act'.t)) => UnitOf(targets', dims'[i]) = targets'[act'.t].unit
                                                         /\ LabelOf(targets', dims'[i]) = targets'[act'.t].label)]_vars
\* a call on one descriptor leaves the other descriptors alone
DimFrame == [][act'.name \in { "SetOwn", "Link", "Unlink", "SetAttr" } =>
    /\ Len(dims') = Len(dims) /\ \A j \in 1..Len(dims) : j # act'.i => dims'[j] = dims[j]]_vars

Export == PrintT(<<"TX", ToJson([hist |-> hist, act |-> act',
    from |-> [targets |-> targets, report |-> Report(targets, dims)],
    to |-> [targets |-> targets', report |-> Report(targets', dims')]])>>)
=============================================================================
