SPECIFICATION Spec
CONSTANTS
  Names = {"n1", "n2", "n3"}
  Vals = {1}
  MaxObj = 34
  MaxDepth = 22
  MaxClock = 1
  Limit <- Limit_CopyDup
  Ops = {"create", "link", "copy", "attr", "data"}
  Faults = {}
  Script <- Script_CopyDup
  CopyKeep = {TRUE, FALSE}
VIEW View
INVARIANT TypeOK
INVARIANT NameUnique
INVARIANT NoDangling
INVARIANT LinkKindAndBlock
INVARIANT RoleKindOK
PROPERTY RefusedUnchanged
PROPERTY DeleteFrame
PROPERTY CopyComplete
PROPERTY CopyIndependent
ACTION_CONSTRAINT Export
CHECK_DEADLOCK FALSE
