SPECIFICATION Spec
CONSTANTS
  Names = {"n1", "n2"}
  Vals = {1, 2}
  MaxObj = 14
  MaxDepth = 32
  MaxClock = 1
  Limit <- Limit_Links
  Ops = {"create", "link", "attr", "data", "delete"}
  Faults = {"WrongKind", "ForeignBlock", "NotMember"}
  Script <- Script_Links
  CopyKeep = {}
VIEW View
ACTION_CONSTRAINT ExportSim
CHECK_DEADLOCK FALSE
