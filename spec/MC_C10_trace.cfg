SPECIFICATION TraceSpec
CONSTANTS
  Names <- TraceNames
  Cands <- NoCands
  MaxLen = 1000
  MaxDepth = 1000000
  AttrNames <- NoAttrNames
  AttrVals = {1}
  Ops = {"extend", "subs", "faults"}
INVARIANT TypeOK
INVARIANT Homogeneous
PROPERTY DtypeFixed
POSTCONDITION TraceAccepted
CHECK_DEADLOCK FALSE
