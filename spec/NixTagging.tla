----------------------------- MODULE NixTagging -----------------------------
(***************************************************************************)
(* Tagged regions (property C08): which samples of a referenced array a    *)
(* tag - or one position of a multi-tag - selects.                         *)
(*                                                                         *)
(* A referenced array has, per data dimension, a descriptor (from NixDim), *)
(* a stored extent n (number of samples actually stored) and a unit.  A    *)
(* tag gives, for the first L dimensions, a position, optionally an extent *)
(* and a unit; dimensions beyond L are taken whole.                         *)
(*                                                                         *)
(* All coordinates are grid integers in the DIMENSION's unit (NixDim): a   *)
(* query carries the region start x and the extent e in dimension units,   *)
(* and the unit case of the dimension says by which power of ten the       *)
(* harness has to divide to obtain the numbers it writes into the tag      *)
(* (tag unit -> dimension unit scales by 10^k, k from NixUnitTable).       *)
(*                                                                         *)
(* Per dimension the selected samples are - declaratively -                *)
(*     Sel = { i : x <= Coord(i) <= x+e }   (end excluded iff the rule is  *)
(*                                           exclusive and e > 0)          *)
(* over ALL samples the descriptor defines (a sampled descriptor defines a *)
(* coordinate for every i >= 0).  The outcome for the dimension is         *)
(*     "empty"   no sample lies in the region                              *)
(*     "oob"     a selected sample lies beyond the stored extent           *)
(*     <<lo,hi>> otherwise;  Sel is then exactly lo..hi (law Contiguous)   *)
(* The call yields data iff every dimension yields a range.                *)
(*                                                                         *)
(* Function-like module: Init = referenced arrays, Next = tags.            *)
(***************************************************************************)
EXTENDS NixDim, NixUnitTable

CONSTANTS
    TagDescs,       \* descriptors used for referenced dimensions (subset of NixDim!Descriptors)
    FreeExtents,    \* stored extents tried for unbounded descriptors (sampled, set without labels)
    UnitCases,      \* [tp, tu, dp, du]: tag prefix/unit, dimension prefix/unit ("" unit = none)
    Ranks,          \* ranks of referenced arrays
    Starts,         \* function kind -> region starts (grid, dimension units)
    Exts,           \* region extents (grid, dimension units, >= 0); NoExt is added
    ShortPositions  \* TRUE: also positions one shorter than the rank

NoExt == -1
StoredExtents(d) == IF Bounded(d) THEN { Count(d) } ELSE FreeExtents

\* unit compatibility and scaling exponent of one dimension
HasUnit(p, u) == u # ""
UnitOutcome(d, uc) ==
    IF d.kind = "set"
      THEN IF HasUnit(uc.tp, uc.tu) THEN "incompatible" ELSE "plain"
      ELSE IF ~HasUnit(uc.tp, uc.tu) THEN "plain"
           ELSE IF ~HasUnit(uc.dp, uc.du) THEN "incompatible"
           ELSE IF uc.tu # uc.du THEN "incompatible" ELSE "scaled"
K10(d, uc) == IF UnitOutcome(d, uc) = "scaled" THEN Scale10(uc.tp, uc.dp, 0) ELSE 0

DimCfgs == { [d |-> d, n |-> n, uc |-> uc] : d \in TagDescs, n \in 1..6, uc \in UnitCases }
ValidDim(dc) == dc.n \in StoredExtents(dc.d) /\ (dc.d.kind = "set" => dc.uc.du = "")
\* a tag either gives a unit for every non-set dimension it addresses or for none (the mixed case is left open)
UniformUnits(a) == \A i, j \in 1..Len(a) :
    (a[i].d.kind # "set" /\ a[j].d.kind # "set") => (HasUnit(a[i].uc.tp, a[i].uc.tu) <=> HasUnit(a[j].uc.tp, a[j].uc.tu))
Arrays == UNION { { a \in [1..rk -> { dc \in DimCfgs : ValidDim(dc) }] : UniformUnits(a) } : rk \in Ranks }

\* one dimension of the region
DimOutcome(dc, x, e, sm) ==
    LET mode == IF e = NoExt \/ e = 0 THEN "inclusive" ELSE sm
        b    == IF e = NoExt THEN x ELSE x + e
        S    == Sel(dc.d, x, b, mode)
    IN  IF S = {} THEN [o |-> "empty"]
        ELSE IF Max(S) >= dc.n THEN [o |-> "oob"]
        ELSE [o |-> "range", lo |-> Min(S), hi |-> Max(S),
              \* the region reaches beyond the last coordinate of a bounded descriptor: refusing is tolerated
              past |-> Bounded(dc.d) /\ b > Coord(dc.d, Count(dc.d) - 1)]

TagLens(rk) == IF ShortPositions /\ rk > 1 THEN { rk, rk - 1 } ELSE { rk }
ExtChoices == Exts \cup { NoExt }
Tags(arr) ==
    LET rk == Len(arr) IN
    UNION { { [pos |-> p, ext |-> e, sm |-> sm] :
                p \in [1..L -> UNION { Starts[arr[i].d.kind] : i \in 1..rk }],
                e \in [1..L -> ExtChoices],
                sm \in SliceModes } : L \in TagLens(rk) }
\* extents are given for all tagged dimensions or for none
TagOK(arr, t) == /\ \A i \in 1..Len(t.pos) : t.pos[i] \in Starts[arr[i].d.kind]
                 /\ (\A i \in 1..Len(t.ext) : t.ext[i] = NoExt) \/ (\A i \in 1..Len(t.ext) : t.ext[i] # NoExt)

Result(arr, t) ==
    LET L == Len(t.pos)
        per == [i \in 1..Len(arr) |->
                   IF i <= L THEN DimOutcome(arr[i], t.pos[i], t.ext[i], t.sm)
                   ELSE [o |-> "range", lo |-> 0, hi |-> arr[i].n - 1, past |-> FALSE]]
        units == { UnitOutcome(arr[i].d, arr[i].uc) : i \in 1..L }
    IN  [dims |-> per,
         outcome |-> IF "incompatible" \in units THEN "incompatible"
                     ELSE IF \E i \in 1..Len(arr) : per[i].o # "range" THEN "none" ELSE "data",
         k10 |-> [i \in 1..Len(arr) |-> K10(arr[i].d, arr[i].uc)],
         tagunits |-> [i \in 1..L |-> Str(arr[i].uc.tp, arr[i].uc.tu, 0)],
         dimunits |-> [i \in 1..Len(arr) |-> Str(arr[i].uc.dp, arr[i].uc.du, 0)]]

TagInit == cfg \in Arrays /\ q = Nil /\ r = Nil
TagNext == /\ q.kind = "nil"
           /\ \E t \in Tags(cfg) : TagOK(cfg, t) /\ q' = [kind |-> "tag", t |-> t] /\ r' = Result(cfg, t)
           /\ UNCHANGED cfg
TagSpec == TagInit /\ [][TagNext]_vars

(***************************************************************************)
(* laws                                                                    *)
(***************************************************************************)
IsTag == q.kind = "tag"
Region(i) == LET t == q.t
                 e == t.ext[i]
             IN  [a |-> t.pos[i], b |-> IF e = NoExt THEN t.pos[i] ELSE t.pos[i] + e,
                  mode |-> IF e = NoExt \/ e = 0 THEN "inclusive" ELSE t.sm]

\* "exactly those samples": inside lo..hi every sample lies in the region, outside none does
ExactlyRegion == IsTag => \A i \in 1..Len(q.t.pos) :
    LET o == r.dims[i]  g == Region(i) IN
    o.o = "range" =>
        \A j \in 0..(cfg[i].n - 1) :
            InRegion(Coord(cfg[i].d, j), g.a, g.b, g.mode) <=> (o.lo <= j /\ j <= o.hi)

\* "never other data": when the call is refused or empty, at least one dimension has no stored sample in
\* the region or selects a sample that is not stored
NoneMeansNone == (IsTag /\ r.outcome = "none") => \E i \in 1..Len(q.t.pos) :
    LET g == Region(i)
        S == { j \in Idx(cfg[i].d) : InRegion(Coord(cfg[i].d, j), g.a, g.b, g.mode) } IN
    S = {} \/ \E j \in S : j >= cfg[i].n

\* a zero extent and a missing extent select the same samples
ZeroIsPoint == IsTag => \A i \in 1..Len(q.t.pos) :
    q.t.ext[i] = 0 => r.dims[i] = DimOutcome(cfg[i], q.t.pos[i], NoExt, q.t.sm)

\* the stop rule only decides about samples lying exactly at the end of the region
RuleOnlyAtEnd == IsTag => \A i \in 1..Len(q.t.pos) :
    LET inc == DimOutcome(cfg[i], q.t.pos[i], q.t.ext[i], "inclusive")
        exc == DimOutcome(cfg[i], q.t.pos[i], q.t.ext[i], "exclusive") IN
    (inc.o = "range" /\ exc.o = "range") =>
        (exc.lo = inc.lo /\ exc.hi <= inc.hi /\
         \A j \in (exc.hi + 1)..inc.hi : Coord(cfg[i].d, j) = q.t.pos[i] + q.t.ext[i])

\* the region selection is NixDim's interval query clipped to the stored data
AgreesWithRangeIndices == IsTag => \A i \in 1..Len(q.t.pos) :
    LET g == Region(i)
        ri == RangeIndices(cfg[i].d, g.a, g.b, g.mode) IN
    (r.dims[i].o = "empty" <=> ri = Empty) /\
    (r.dims[i].o = "range" => (ri = << r.dims[i].lo, r.dims[i].hi >>))

\* untagged dimensions are taken whole
BeyondIsWhole == IsTag => \A i \in (Len(q.t.pos) + 1)..Len(cfg) :
    r.dims[i].o = "range" /\ r.dims[i].lo = 0 /\ r.dims[i].hi = cfg[i].n - 1

TagExport == PrintT(<<"TX", ToJson([g |-> G, cfg |-> cfg, q |-> q', r |-> r'])>>)
=============================================================================
