---------------------------- MODULE NixMetaTrace ----------------------------
(***************************************************************************)
(* Binding B for NixMeta: executions RECORDED from the real library are    *)
(* checked against the specification.  A seeded random driver calls the    *)
(* Section / Property API over a larger universe than TLC enumerates (more *)
(* names, longer lists, longer histories, faults with probability 1/4) and *)
(* logs one line per call after it returned or raised: the call, its       *)
(* outcome class, and the complete projected state.  Every line must be    *)
(* explained by the NixMeta action the call maps to - with the logged      *)
(* arguments - leading exactly to the logged state.  Since the whole state *)
(* is logged there is no branching; all traces of a run are concatenated   *)
(* (a Reset event starts each one) and validated in one TLC run.           *)
(***************************************************************************)
EXTENDS NixMeta, IOUtils

TraceLog == ndJsonDeserialize(IOEnv.TRACE_FILE)

VARIABLE l
tvars == << props, subs, act, hist, l >>

Ev == TraceLog[l]

\* the API call of the event, mapped to the specification action (the specification decides between
\* "create" and "assign" for dictionary-style assignment, as the library does)
Explains(e) ==
    LET a == e.act IN
    CASE a.call = "reset"             -> props' = << >> /\ subs' = << >> /\ act' = [name |-> "Init", out |-> "ok"] /\ hist' = << >>
      [] a.call = "create_property"   -> CreateProp(a.n, a.c, "method")
      [] a.call = "create_typed"      -> CreateTyped(a.n, a.t)
      [] a.call = "create_empty"      -> CreateEmpty(a.n)
      [] a.call = "dict_set"          -> IF HasProp(a.n) THEN Assign(a.n, a.c, "dict") ELSE CreateProp(a.n, a.c, "dict")
      [] a.call = "set_values"        -> Assign(a.n, a.c, "attr")
      [] a.call = "extend_values"     -> Extend(a.n, a.c)
      [] a.call = "clear_values"      -> Clear(a.n, a.how)
      [] a.call = "delete_property"   -> DeleteProp(a.n, a.via)
      [] a.call = "create_section"    -> CreateSub(a.n)
      [] a.call = "delete_section"    -> DeleteSub(a.n)

TraceInit == Init /\ l = 1
TraceNext == /\ l <= Len(TraceLog)
             /\ l' = l + 1
             /\ Explains(Ev)
             /\ props' = Ev.state.props /\ subs' = Ev.state.subs      \* the logged state, completely
             /\ act'.out = Ev.act.out                                   \* and the logged outcome class
TraceSpec == TraceInit /\ [][TraceNext]_tvars

\* every line consumed <=> the behaviour is as long as the log
TraceAccepted ==
    LET d == TLCGet("stats").diameter IN
    IF d - 1 = Len(TraceLog) THEN TRUE
    ELSE Print(<< "TRACE-REJECTED-AT-LINE", d, "of", Len(TraceLog) >>, FALSE)
=============================================================================
