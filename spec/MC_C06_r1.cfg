SPECIFICATION Spec
CONSTANTS
  Shapes <- T_Shapes1
  WinStarts = {0, 1, 2, 3, 5}
  WinExtents = {0, 1, 2, 3, 4, 5}
  IntVals <- T_Ints
  SliceVals <- T_Slice
  StepVals = {1, 2, 3, 7}
  MaxExprs = 0
INVARIANT InSpace
INVARIANT InWindow
INVARIANT ErrorOnlyFromInts
INVARIANT WholeWindow
INVARIANT Composition
ACTION_CONSTRAINT Export
CHECK_DEADLOCK FALSE
