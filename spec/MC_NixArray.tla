---------------------------- MODULE MC_NixArray ----------------------------
EXTENDS NixArray

S(a, b, c) == CSlice(a, b, c)
N == NONE
\* region assignments per rank: single cells, rows, stepped and negative slices, ellipsis
Exprs1 == { << CInt(0) >>, << CInt(-1) >>, << S(1, N, N) >>, << S(N, N, 2) >>, << S(-2, N, N) >>, << CEll >> }
Exprs2 == { << CInt(0) >>, << CInt(-1), CInt(0) >>, << S(N, N, N), CInt(1) >>, << S(1, N, N), S(N, 1, N) >>,
            << CEll, CInt(-1) >>, << S(N, N, 2), S(N, N, 2) >>, << CInt(5) >> }
Exprs3 == { << CInt(0) >>, << CInt(1), CEll, CInt(0) >>, << S(N, N, N), CInt(0), S(1, N, N) >> }
Exprs4 == { << CInt(0) >>, << CEll, CInt(-1) >>, << CInt(1), CInt(0), S(N, N, N), CInt(0) >> }
AE == << Exprs1 \cup { << CInt(7) >> }, Exprs2, Exprs3, Exprs4 >>

Q_Shapes == { <<3>>, <<0>>, <<2, 2>>, <<2, 0>>, <<2, 1, 2>> }
T_Shapes == { <<3>>, <<0>>, <<1>>, <<2, 2>>, <<2, 0>>, <<0, 3>>, <<3, 2>>, <<2, 1, 2>>, <<1, 2, 1, 2>> }

NoCoefs == {}
NoOrigins == {}
C15_Shapes == { <<3>>, <<2, 2>> }
C15_Coefs  == { << >>, <<1>>, <<0, 2>>, <<-1, 0, 1>>, <<2, -1, 0, 1>>, <<0, 0, 0, 0, 1>>, <<0>> }
C15_Origins == { NONE, 0, 1, -2 }
=============================================================================
