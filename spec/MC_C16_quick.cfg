SPECIFICATION Spec
CONSTANTS
  Schemas <- SchQ
  RowCounts = {0, 2}
  NewCols <- NewQ
  MaxRows = 3
  MaxCols = 4
  MaxDepth = 4
  Ops = {"append", "write", "units", "faults"}
VIEW View
INVARIANT ShapeMatches
PROPERTY RefusedUnchanged
PROPERTY CellFrame
PROPERTY AppendKeeps
PROPERTY TypesFixed
ACTION_CONSTRAINT Export
CHECK_DEADLOCK FALSE
