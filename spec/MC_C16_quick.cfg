SPECIFICATION Spec
CONSTANTS
  Schemas <- SchQ
  RowCounts = {0, 3}
  NewCols <- NewQ
  MaxRows = 4
  MaxCols = 4
  MaxDepth = 4
  Ops = {"append", "write", "units", "faults"}
VIEW View
INVARIANT ShapeMatches
PROPERTY RefusedUnchanged
PROPERTY CellFrame
PROPERTY AppendKeeps
PROPERTY TypesFixed
ACTION_CONSTRAINT Export
CHECK_DEADLOCK FALSE
