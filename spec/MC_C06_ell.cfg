SPECIFICATION Spec
CONSTANTS
  Shapes <- E_Shapes
  WinStarts = {0}
  WinExtents = {2}
  IntVals <- E_Ints
  SliceVals <- NoVals
  StepVals <- NoVals
  MaxExprs = 3
INVARIANT InSpace
INVARIANT InWindow
INVARIANT ErrorOnlyFromInts
INVARIANT WholeWindow
INVARIANT Composition
ACTION_CONSTRAINT Export
CHECK_DEADLOCK FALSE
