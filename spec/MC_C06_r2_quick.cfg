SPECIFICATION Spec
CONSTANTS
  Shapes <- Q_Shapes2
  WinStarts = {0, 1}
  WinExtents = {1, 3}
  IntVals <- Q2_Ints
  SliceVals <- Q2_Slice
  StepVals = {2}
  MaxExprs = 0
INVARIANT InSpace
INVARIANT InWindow
INVARIANT ErrorOnlyFromInts
INVARIANT WholeWindow
INVARIANT Composition
ACTION_CONSTRAINT Export
CHECK_DEADLOCK FALSE
