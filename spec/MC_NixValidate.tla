--------------------------- MODULE MC_NixValidate ---------------------------
EXTENDS NixValidate
Kinds3 == { "sampled", "range", "set" }
Mix1 == { << k >> : k \in Kinds3 }
Mix2 == { << k1, k2 >> : k1 \in Kinds3, k2 \in Kinds3 }
Mix2q == { << "sampled", "range" >>, << "set", "sampled" >>, << "range", "set" >> }
=============================================================================
