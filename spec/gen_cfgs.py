#!/usr/bin/env python3
"""Writes the NixModel TLC configurations (MC_*.cfg). Run after editing; the files are committed."""
INV = ["TypeOK", "NameUnique", "EidUnique", "NoDangling", "LinkKindAndBlock", "RoleKindOK"]
PROPS = ["RefusedUnchanged", "IdNameStable", "NumbersNeverReused", "DeleteFrame", "UnlinkKeepsTarget",
         "CreatedAtFixed", "UpdatedMonotone", "TimestampLocality", "NoAutoNoChange", "ListedAttrStamps"]


def cfg(name, names, vals, maxobj, depth, clock, limit, ops, faults, script, inv=INV, props=PROPS, export=True, copykeep=()):
    s = ["SPECIFICATION Spec", "CONSTANTS",
         "  Names = {%s}" % ", ".join('"%s"' % n for n in names),
         "  Vals = {%s}" % ", ".join(str(v) for v in vals),
         "  MaxObj = %d" % maxobj, "  MaxDepth = %d" % depth, "  MaxClock = %d" % clock,
         "  Limit <- %s" % limit,
         "  Ops = {%s}" % ", ".join('"%s"' % o for o in ops),
         "  Faults = {%s}" % ", ".join('"%s"' % f for f in faults),
         "  Script <- %s" % script, "  CopyKeep = {%s}" % ", ".join(copykeep), "VIEW View"]
    s += ["INVARIANT %s" % i for i in inv]
    s += ["PROPERTY %s" % p for p in props]
    if export:
        s.append("ACTION_CONSTRAINT ExportSim" if name.startswith("MC_Sim") else "ACTION_CONSTRAINT Export")
    s.append("CHECK_DEADLOCK FALSE")
    open(name, "w").write("\n".join(s) + "\n")


ALLF = ["DuplicateName", "BadName", "NoneType", "WrongKind", "ForeignBlock", "NotMember", "Required", "NotFound", "BadLinkType"]
N2 = ["n1", "n2"]
N3 = ["n1", "n2", "n3"]
# C03: create / delete histories over all containers
cfg("MC_C03_quick.cfg", N2, [1], 4, 4, 1, "Limit_C03", ["create", "createfault", "delete"], ["DuplicateName", "BadName", "NotFound"], "NoScript")
cfg("MC_C03.cfg", N2, [1], 5, 5, 1, "Limit_C03", ["create", "createfault", "delete"], ["DuplicateName", "BadName", "NotFound"], "NoScript")
# C04: link / delete interleavings after a scripted creation prefix (14 objects)
cfg("MC_C04_quick.cfg", N2, [1], 14, 16, 1, "Limit_Links", ["create", "link", "delete"], [], "Script_Links")
cfg("MC_C04.cfg", N2, [1], 14, 17, 1, "Limit_Links", ["create", "link", "delete"], [], "Script_Links")
# C05: links as aliases: link + attribute/data mutations, wrong-kind and foreign-block appends
cfg("MC_C05_quick.cfg", N2, [1, 2], 14, 16, 1, "Limit_Links", ["create", "link", "attr", "data"], ["WrongKind", "ForeignBlock"], "Script_Links")
cfg("MC_C05.cfg", N2, [1, 2], 14, 17, 1, "Limit_Links", ["create", "link", "attr", "data"], ["WrongKind", "ForeignBlock"], "Script_Links")
# C12: every fault class at every state
cfg("MC_C12_quick.cfg", N2, [1], 14, 15, 1, "Limit_Sim", ["create", "mtagauto", "createfault", "attr", "link", "extend", "delete"], ALLF, "Script_Links")
cfg("MC_C12.cfg", N2, [1], 15, 16, 1, "Limit_Sim", ["create", "mtagauto", "createfault", "attr", "link", "delete"], ALLF, "Script_Links")
cfg("MC_C12_free.cfg", N2, [1], 4, 4, 1, "Limit_C04", ["create", "mtagauto", "createfault", "attr", "link", "delete"], ALLF, "NoScript")
# C02: everything that writes, small universe, reopen at every state
cfg("MC_C02_quick.cfg", N2, [1, 2], 4, 4, 1, "Limit_C04", ["create", "attr", "data", "link", "delete"], [], "NoScript")
cfg("MC_C02.cfg", N2, [1, 2], 5, 5, 1, "Limit_C04", ["create", "attr", "data", "link", "delete"], [], "NoScript")
cfg("MC_C02_links.cfg", N2, [1, 2], 14, 16, 1, "Limit_Links", ["create", "attr", "data", "link", "delete"], [], "Script_Links")
# C19: clock, auto switch, force, setters
cfg("MC_C19_quick.cfg", ["n1"], [1, 2], 2, 4, 2, "Limit_C19", ["create", "attr", "time"], ["NoneType"], "NoScript")
cfg("MC_C19.cfg", ["n1"], [1, 2], 3, 5, 3, "Limit_C19", ["create", "attr", "time", "link"], ["NoneType"], "NoScript")
cfg("MC_C19_links.cfg", N2, [1, 2], 14, 16, 2, "Limit_Links", ["create", "attr", "time", "link"], [], "Script_Links")
# C13: trees of sections and sources with repeated names; searches exported as observables
cfg("MC_C13_quick.cfg", N2, [1], 5, 5, 1, "Limit_C13", ["create", "delete", "obs"], [], "NoScript", inv=INV + ["SearchSound", "SearchMonotone"])
cfg("MC_C13.cfg", N2, [1], 6, 6, 1, "Limit_C13", ["create", "delete", "obs"], [], "NoScript", inv=INV + ["SearchSound", "SearchMonotone"])
cfg("MC_C13_links.cfg", N2, [1], 14, 16, 1, "Limit_Links", ["create", "link", "delete", "obs"], [], "Script_Links", inv=INV + ["SearchSound"])
# simulation: larger universe, everything enabled
cfg("MC_Sim.cfg", ["n1", "n2", "n3"], [1, 2], 16, 30, 4, "Limit_Sim", ["create", "createfault", "attr", "data", "time", "link", "delete"], ALLF, "NoScript", inv=[], props=[])

# sessions (C11 read-only, C17 kill): write histories for NixSession schedules
cfg("MC_Sess_quick.cfg", ["n1"], [1, 2], 4, 4, 1, "Limit_C04", ["create", "attr", "data", "link", "delete"], [], "NoScript")
cfg("MC_Sess_links_quick.cfg", N2, [1, 2], 14, 15, 1, "Limit_Links", ["create", "attr", "data", "link", "delete"], [], "Script_Links")
# C20: copies after a scripted prefix (block with internal links), then mutations of either side
C20P = ["RefusedUnchanged", "DeleteFrame", "CopyComplete", "CopyIndependent"]
cfg("MC_C20_quick.cfg", N3, [1], 32, 20, 1, "Limit_Copy", ["create", "copy", "attr", "data", "delete", "link"], ["NameExists"], "Script_Copy", props=C20P, copykeep=["FALSE"])
cfg("MC_C20.cfg", N3, [1], 32, 21, 1, "Limit_Copy", ["create", "copy", "attr", "data", "delete", "link"], ["NameExists"], "Script_Copy", props=C20P, copykeep=["FALSE"])
cfg("MC_C20_mut.cfg", N3, [1, 2], 32, 22, 1, "Limit_Copy", ["create", "link", "copy", "attr", "data", "delete"], [], "Script_Copied", props=C20P, copykeep=["FALSE"])
cfg("MC_C20_dupid.cfg", N3, [1], 34, 22, 1, "Limit_CopyDup", ["create", "link", "copy", "attr", "data"], [], "Script_CopyDup", inv=[i for i in INV if i != "EidUnique"], props=C20P, copykeep=["TRUE", "FALSE"])
cfg("MC_C20_keep.cfg", N3, [1], 32, 20, 1, "Limit_Copy", ["create", "link", "copy", "attr", "data"], ["NameExists"], "Script_Copy", inv=[i for i in INV if i != "EidUnique"], props=C20P, copykeep=["TRUE"])
# C02 / C05: link, unlink, link again (a link list that became empty in between) after the scripted prefix
cfg("MC_C02_relink.cfg", N2, [1], 6, 9, 1, "Limit_Small", ["create", "link"], [], "Script_Small")
cfg("MC_C02_relink4.cfg", N2, [1], 6, 10, 1, "Limit_Small", ["create", "link"], [], "Script_Small")
# C03: link lists over a source tree with shadowed names
cfg("MC_C03_shadow.cfg", N2, [1], 8, 10, 1, "Limit_Shadow", ["create", "link"], ["NotMember"], "Script_Shadow")
# C12: extend() on lists that already have members
cfg("MC_C12_extend.cfg", N2, [1], 6, 11, 1, "Limit_Small", ["create", "link", "extend"], ["WrongKind", "ForeignBlock"], "Script_Linked")
# simulation (-simulate): random walks are not cut by the VIEW, so calls are repeated, undone and redone
cfg("MC_SimLinks.cfg", N2, [1, 2], 14, 32, 1, "Limit_Links", ["create", "link", "attr", "data", "delete"], ["WrongKind", "ForeignBlock", "NotMember"], "Script_Links", inv=[], props=[])
cfg("MC_SimSmall.cfg", N2, [1, 2], 6, 24, 1, "Limit_Small", ["create", "link", "attr"], ["NotMember"], "Script_Small", inv=[], props=[])
cfg("MC_SimChurn.cfg", N2, [1], 40, 24, 1, "Limit_C03", ["create", "delete"], ["DuplicateName", "NotFound"], "NoScript", inv=[], props=[])
# quick-tier variants: one call after the scripted prefix (the thorough tier and the simulations go deeper)
cfg("MC_C05_q1.cfg", N2, [1, 2], 14, 15, 1, "Limit_Links", ["create", "link", "extend", "attr", "data"], ["WrongKind", "ForeignBlock"], "Script_Links")
cfg("MC_C19_links_q1.cfg", N2, [1, 2], 14, 15, 2, "Limit_Links", ["create", "attr", "time", "link"], [], "Script_Links")
# C19 after a refused call (a refusal must not leave the session's switch or clock handling changed): every fault class
# at the scripted state; the harness applies the setter probe after each refused call
cfg("MC_C19_fault_q1.cfg", N2, [1], 14, 15, 2, "Limit_Sim", ["create", "createfault", "mtagauto", "link"], ALLF, "Script_Links")
print("ok")
