---------------------------- MODULE NixIndexing ----------------------------
(***************************************************************************)
(* NumPy-style index expressions on n-dimensional arrays and on views      *)
(* (rectangular windows) - pure operators, no variables.  Used by          *)
(* NixIndex (vectors for C06) and NixArray (C01, C15).                     *)
(*                                                                         *)
(* An expression is a sequence of components                               *)
(*   [t |-> "int",   i |-> k]                                              *)
(*   [t |-> "slice", a |-> start, b |-> stop, s |-> step]   NONE = absent  *)
(*   [t |-> "ell"]                                          at most one    *)
(* Everything is defined from first principles (CPython's slice.indices,   *)
(* integer wrap-around and range check, ellipsis / padding expansion).     *)
(***************************************************************************)
EXTENDS Integers, Sequences, FiniteSets

NONE == 99

MaxOf(a, b) == IF a >= b THEN a ELSE b
MinOf(a, b) == IF a <= b THEN a ELSE b

CInt(k)         == [t |-> "int", i |-> k]
CSlice(a, b, s) == [t |-> "slice", a |-> a, b |-> b, s |-> s]
CEll            == [t |-> "ell"]
CFull           == CSlice(NONE, NONE, NONE)

RECURSIVE Prod(_)
Prod(sh) == IF sh = << >> THEN 1 ELSE Head(sh) * Prod(Tail(sh))

\* indices selected by a slice of positive step on an axis of length n
SliceIdx(n, c) ==
    LET st == IF c.s = NONE THEN 1 ELSE c.s
        a  == IF c.a = NONE THEN 0 ELSE IF c.a < 0 THEN MaxOf(c.a + n, 0) ELSE MinOf(c.a, n)
        b  == IF c.b = NONE THEN n ELSE IF c.b < 0 THEN MaxOf(c.b + n, 0) ELSE MinOf(c.b, n)
        cnt == IF b <= a THEN 0 ELSE (b - a + st - 1) \div st
    IN  [j \in 1..cnt |-> a + (j - 1) * st]

NonEll(e) == Cardinality({ i \in 1..Len(e) : e[i].t # "ell" })
EllPos(e) == IF \E i \in 1..Len(e) : e[i].t = "ell" THEN CHOOSE i \in 1..Len(e) : e[i].t = "ell" ELSE 0
Fulls(n)  == [j \in 1..n |-> CFull]

\* expression with exactly `rank` non-ellipsis components (only if NonEll(e) <= rank)
Expand(e, rank) ==
    LET p == EllPos(e) pad == Fulls(rank - NonEll(e)) IN
    IF p = 0 THEN e \o pad
    ELSE SubSeq(e, 1, p - 1) \o pad \o SubSeq(e, p + 1, Len(e))

IntInRange(n, k) == -n <= k /\ k < n
IntIdx(n, k) == IF k < 0 THEN k + n ELSE k

Error == [ok |-> FALSE, dims |-> << >>]

\* per-dimension selection: idx = selected indices in order, drop = dimension removed from the result
Resolve(e, shape) ==
    LET rank == Len(shape) IN
    IF NonEll(e) > rank THEN Error
    ELSE LET x == Expand(e, rank) IN
         IF \E d \in 1..rank : x[d].t = "int" /\ ~IntInRange(shape[d], x[d].i) THEN Error
         ELSE [ok |-> TRUE,
               dims |-> [d \in 1..rank |->
                           IF x[d].t = "int" THEN [idx |-> << IntIdx(shape[d], x[d].i) >>, drop |-> TRUE]
                           ELSE [idx |-> SliceIdx(shape[d], x[d]), drop |-> FALSE]]]

\* shape of the result (kept dimensions only)
ResultShape(res) == LET keep == SelectSeq(res.dims, LAMBDA q : ~q.drop) IN [j \in 1..Len(keep) |-> Len(keep[j].idx)]
\* shape of the selected block, all dimensions
BlockShape(res) == [d \in 1..Len(res.dims) |-> Len(res.dims[d].idx)]

(***************************************************************************)
(* views: a window [start, start + extent) per dimension                   *)
(***************************************************************************)
ViewValid(w, shape) == /\ Len(w) = Len(shape)
                       /\ \A d \in 1..Len(shape) : w[d].s >= 0 /\ w[d].e >= 0 /\ w[d].s + w[d].e <= shape[d]
ViewShape(w) == [d \in 1..Len(w) |-> w[d].e]

\* an expression on a valid view: resolve on the view's own shape, shift into the array
ViewResolve(w, e) ==
    LET r == Resolve(e, ViewShape(w)) IN
    IF ~r.ok THEN Error
    ELSE [ok |-> TRUE, dims |-> [d \in 1..Len(w) |->
            [idx |-> [j \in 1..Len(r.dims[d].idx) |-> r.dims[d].idx[j] + w[d].s], drop |-> r.dims[d].drop]]]

(***************************************************************************)
(* row-major linearisation                                                 *)
(***************************************************************************)
RECURSIVE Linear(_, _)
\* idx, shape: sequences of equal length; 0-based linear offset
Linear(idx, sh) == IF sh = << >> THEN 0
                   ELSE idx[1] * Prod(Tail(sh)) + Linear(Tail(idx), Tail(sh))

RECURSIVE Unlinear(_, _)
Unlinear(k, sh) == IF sh = << >> THEN << >>
                   ELSE << k \div Prod(Tail(sh)) >> \o Unlinear(k % Prod(Tail(sh)), Tail(sh))

\* position (1-based) of value v in sequence s, 0 if absent
PosIn(s, v) == IF \E j \in 1..Len(s) : s[j] = v THEN CHOOSE j \in 1..Len(s) : s[j] = v ELSE 0

\* is the cell idx selected, and where does it sit in the selected block (0-based, row-major over all dims)
Selected(res, idx) == \A d \in 1..Len(idx) : PosIn(res.dims[d].idx, idx[d]) # 0
BlockOffset(res, idx) ==
    Linear([d \in 1..Len(idx) |-> PosIn(res.dims[d].idx, idx[d]) - 1], BlockShape(res))
=============================================================================
