------------------------------ MODULE NixModel ------------------------------
(***************************************************************************)
(* The content of a NIX file as an entity graph, and the public API calls  *)
(* that change it (properties C02 C03 C04 C05 C11 C12 C13 C17 C19 C20).    *)
(*                                                                         *)
(* One action = one public call that returned or raised.  A refused call   *)
(* is an action whose only effect is on the bookkeeping variables `act`    *)
(* and `hist`.  All state lives in the file, so the abstract state is the  *)
(* set of live objects with their records:                                 *)
(*                                                                         *)
(*   kind, name, owner    the owner tree (0 = the file itself)             *)
(*   eid                  entity id token (own number unless a keep-id     *)
(*                        copy), deletion goes by eid as in the code       *)
(*   typ, def             two representative attributes (type/link type,   *)
(*                        definition) - token 0 is None                    *)
(*   ls[list]             ordered link lists (hard links to other objects) *)
(*   rl[role]             single links: metadata, positions, extents, data *)
(*   dims                 dimension descriptors of arrays (kind + own/link)*)
(*   dtok                 data version token of arrays and property values *)
(*   c, u                 created_at / updated_at in clock ticks           *)
(*                                                                         *)
(* `hist` is the sequence of calls that led to the state; together with    *)
(* `act` it is hidden from TLC's fingerprint by the VIEW so that it does   *)
(* not multiply states; every exported transition carries it, so the       *)
(* harness can replay each transition from an empty file.                  *)
(***************************************************************************)
EXTENDS Integers, Sequences, FiniteSets, TLC, Json

CONSTANTS
    Names,        \* name tokens
    Vals,         \* attribute value tokens (0 = None is always available for optional attributes)
    MaxObj,       \* object numbers 1..MaxObj
    MaxDepth,     \* bound on Len(hist)
    MaxClock,     \* the clock runs 1..MaxClock
    Limit,        \* [kind -> max number of live objects of that kind]
    Ops,          \* enabled action families
    Faults,       \* enabled classes of refused calls
    Script,       \* scripted prefix: the first Len(Script) actions are these (<< >> for none)
    CopyKeep      \* id policies of copies: subset of BOOLEAN (TRUE = keep the ids)

FILE == 0
None == 0

KindSet == { "block", "group", "array", "frame", "tag", "mtag", "feature", "source", "section", "property" }
ListNames == { "data_arrays", "data_frames", "tags", "multi_tags", "references", "sources" }
RoleNames == { "metadata", "positions", "extents", "data" }

ListsOf(k) == CASE k = "group" -> { "data_arrays", "data_frames", "tags", "multi_tags", "sources" }
                [] k = "array" -> { "sources" }
                [] k = "tag"   -> { "references", "sources" }
                [] k = "mtag"  -> { "references", "sources" }
                [] OTHER       -> {}
\* which kind a list holds
ListKind(l) == CASE l = "data_arrays" -> "array" [] l = "data_frames" -> "frame" [] l = "tags" -> "tag" [] l = "multi_tags" -> "mtag"
                 [] l = "references" -> "array" [] l = "sources" -> "source"
RolesOf(k) == CASE k \in { "block", "group", "array", "frame", "tag", "source" } -> { "metadata" }
                [] k = "mtag"    -> { "metadata", "positions", "extents" }
                [] k = "feature" -> { "data" }
                [] OTHER         -> {}
RoleKind(r) == IF r = "metadata" THEN "section" ELSE "array"
\* the data of a feature may also be a data frame (not for the link type "tagged" = 1)
RoleKinds(r) == IF r = "data" THEN { "array", "frame" } ELSE { RoleKind(r) }

OwnerKinds(k) == CASE k = "block" -> { "file" }
                   [] k \in { "group", "array", "frame", "tag", "mtag" } -> { "block" }
                   [] k = "feature" -> { "tag", "mtag" }
                   [] k = "source"  -> { "block", "source" }
                   [] k = "section" -> { "file", "section" }
                   [] k = "property" -> { "section" }

VARIABLES objs, rec, next, clock, auto, fts, act, hist
vars == << objs, rec, next, clock, auto, fts, act, hist >>
View == << objs, rec, next, clock, auto, fts >>

EmptyLists == [l \in ListNames |-> << >>]
EmptyRoles == [r \in RoleNames |-> None]

Kind(o)  == IF o = FILE THEN "file" ELSE rec[o].kind
Kids(p, k) == { o \in objs : rec[o].owner = p /\ rec[o].kind = k }
NameTaken(p, k, n) == \E o \in Kids(p, k) : rec[o].name = n
Count(k) == Cardinality({ o \in objs : rec[o].kind = k })

RECURSIVE Closure(_)
Closure(S) == LET T == S \cup { x \in objs : rec[x].owner \in S } IN IF T = S THEN S ELSE Closure(T)
Sub(o) == Closure({o})                     \* o and everything it owns, transitively

RECURSIVE BlockOf(_)
BlockOf(o) == IF o = FILE THEN FILE
              ELSE IF rec[o].kind = "block" THEN o ELSE BlockOf(rec[o].owner)

\* sources of kind "source" below o (any depth)
SourcesBelow(o) == { x \in Sub(o) : x # o /\ rec[x].kind = "source" }
SectionsBelow(o) == { x \in Sub(o) : x # o /\ rec[x].kind = "section" }

SeqFilter(s, keep) == SelectSeq(s, LAMBDA x : x \in keep)
SeqRemove(s, x) == SelectSeq(s, LAMBDA y : y # x)
InSeq(s, x) == \E i \in 1..Len(s) : s[i] = x

(***************************************************************************)
(* bookkeeping                                                             *)
(***************************************************************************)
CanStep == Len(hist) < MaxDepth
Log(a) == act' = a /\ hist' = Append(hist, a)
Refuse(a, why) == /\ Log([a EXCEPT !.out = why])
                  /\ UNCHANGED << objs, rec, next, clock, auto, fts >>
Stamp == IF auto THEN clock ELSE -1        \* -1: leave updated_at alone
Touch(r) == IF auto THEN [r EXCEPT !.u = clock] ELSE r

(***************************************************************************)
(* creation                                                                *)
(***************************************************************************)
NewRec(k, n, p, t) ==
    [kind |-> k, name |-> n, owner |-> p, eid |-> next, typ |-> t, def |-> None,
     ls |-> EmptyLists, rl |-> EmptyRoles, dims |-> << >>, dtok |-> 0, c |-> clock, u |-> clock]

AddObj(r) == /\ objs' = objs \cup {next}
             /\ rec' = [o \in objs \cup {next} |-> IF o = next THEN r ELSE rec[o]]
             /\ next' = next + 1
             /\ UNCHANGED << clock, auto, fts >>

\* the bounds of the configuration apply to successful creations only
Room(k) == next <= MaxObj /\ Count(k) < Limit[k]

\* named entities: block group array tag source section
CreateNamed(k, p, n, t) ==
    LET a == [name |-> "Create", kind |-> k, owner |-> p, n |-> n, t |-> t, new |-> next, out |-> "ok"] IN
    /\ CanStep /\ Kind(p) \in OwnerKinds(k)
    /\ IF NameTaken(p, k, n)
         THEN "DuplicateName" \in Faults /\ Refuse(a, "refused:DuplicateName")
         ELSE Room(k) /\ AddObj(NewRec(k, n, p, t)) /\ Log(a)

\* a multi-tag needs a positions array (of its block); extents optional
CreateMTag(b, n, t, pos, ext) ==
    LET a == [name |-> "CreateMTag", owner |-> b, n |-> n, t |-> t, pos |-> pos, ext |-> ext,
              new |-> next, out |-> "ok"] IN
    /\ CanStep
    /\ Kind(b) = "block" /\ Kind(pos) = "array" /\ (ext = None \/ Kind(ext) = "array")
    /\ IF NameTaken(b, "mtag", n)
         THEN "DuplicateName" \in Faults /\ Refuse(a, "refused:DuplicateName")
         ELSE IF BlockOf(pos) # b \/ (ext # None /\ BlockOf(ext) # b)
         THEN "ForeignBlock" \in Faults /\ Refuse(a, "refused:ForeignBlock")
         ELSE /\ Room("mtag")
              /\ AddObj([NewRec("mtag", n, b, t) EXCEPT !.rl = [EmptyRoles EXCEPT !["positions"] = pos, !["extents"] = ext]])
              /\ Log(a)

\* create_multi_tag with array-like positions (and extents): the library first creates the arrays
\* "<name>-positions" / "<name>-extents", then the tag, and rolls the arrays back when a later step fails
PosName(n) == "pos:" \o n
ExtName(n) == "ext:" \o n
CreateMTagAuto(b, n, t, withExt) ==
    LET a == [name |-> "CreateMTagAuto", owner |-> b, n |-> n, t |-> t, ext |-> withExt, new |-> next, out |-> "ok"]
        k == IF withExt THEN 2 ELSE 1
        posrec == NewRec("array", PosName(n), b, t + 100)
        extrec == [NewRec("array", ExtName(n), b, t + 200) EXCEPT !.eid = next + 1]
        tagrec == [NewRec("mtag", n, b, t) EXCEPT !.eid = next + k,
                       !.rl = [EmptyRoles EXCEPT !["positions"] = next, !["extents"] = IF withExt THEN next + 1 ELSE None]]
        news == IF withExt THEN << posrec, extrec, tagrec >> ELSE << posrec, tagrec >> IN
    /\ CanStep /\ Kind(b) = "block"
    /\ IF NameTaken(b, "mtag", n) \/ NameTaken(b, "array", PosName(n)) \/ (withExt /\ NameTaken(b, "array", ExtName(n)))
         THEN "DuplicateName" \in Faults /\ Refuse(a, "refused:DuplicateName")
         ELSE /\ next + k <= MaxObj /\ Count("mtag") < Limit["mtag"] /\ Count("array") + k <= Limit["array"]
              /\ objs' = objs \cup (next..(next + k))
              /\ rec' = [o \in objs \cup (next..(next + k)) |-> IF o >= next THEN news[o - next + 1] ELSE rec[o]]
              /\ next' = next + k + 1
              /\ UNCHANGED << clock, auto, fts >>
              /\ Log(a)

\* a feature has no name; its data must be an array of the tag's block
CreateFeature(tg, d, lt) ==
    LET a == [name |-> "CreateFeature", owner |-> tg, data |-> d, t |-> lt, new |-> next, out |-> "ok"] IN
    /\ CanStep
    /\ Kind(tg) \in { "tag", "mtag" } /\ Kind(d) \in { "array", "frame" }
    /\ IF BlockOf(d) # BlockOf(tg)
         THEN "ForeignBlock" \in Faults /\ Refuse(a, "refused:ForeignBlock")
         ELSE IF Kind(d) = "frame" /\ lt = 1
         THEN "BadLinkType" \in Faults /\ Refuse(a, "refused:BadLinkType")      \* a frame cannot be a tagged feature
         ELSE /\ Room("feature")
              /\ AddObj([NewRec("feature", "", tg, lt) EXCEPT !.rl = [EmptyRoles EXCEPT !["data"] = d]])
              /\ Log(a)

\* a property is created with a first value token
CreateProperty(s, n, v) ==
    LET a == [name |-> "CreateProperty", owner |-> s, n |-> n, v |-> v, new |-> next, out |-> "ok"] IN
    /\ CanStep
    /\ Kind(s) = "section"
    /\ IF NameTaken(s, "property", n)
         THEN "DuplicateName" \in Faults /\ Refuse(a, "refused:DuplicateName")
         ELSE Room("property") /\ AddObj([NewRec("property", n, s, None) EXCEPT !.dtok = v]) /\ Log(a)

\* refused for a reason other than duplication: the name stays available
CreateBadName(k, p, why) ==
    LET a == [name |-> "CreateBad", kind |-> k, owner |-> p, why |-> why, out |-> "refused:" \o why] IN
    /\ CanStep /\ Kind(p) \in OwnerKinds(k) /\ "BadName" \in Faults
    /\ Refuse(a, "refused:" \o why)

Create ==
    \/ \E n \in Names, t \in Vals : CreateNamed("block", FILE, n, t)
    \/ \E b \in objs, k \in { "group", "array", "frame", "tag" }, n \in Names, t \in Vals :
          Kind(b) = "block" /\ CreateNamed(k, b, n, t)
    \* an array may carry the very name create_multi_tag derives for its helper arrays
    \/ ("mtagauto" \in Ops /\ \E b \in objs, n \in Names, t \in Vals :
          Kind(b) = "block" /\ (CreateNamed("array", b, PosName(n), t) \/ CreateNamed("array", b, ExtName(n), t)))
    \/ \E p \in objs, n \in Names, t \in Vals : Kind(p) \in { "block", "source" } /\ CreateNamed("source", p, n, t)
    \/ \E p \in objs \cup {FILE}, n \in Names, t \in Vals : Kind(p) \in { "file", "section" } /\ CreateNamed("section", p, n, t)
    \/ \E b \in objs, n \in Names, t \in Vals, pos \in objs, ext \in objs \cup {None} : CreateMTag(b, n, t, pos, ext)
    \/ ("mtagauto" \in Ops /\ \E b \in objs, n \in Names, t \in Vals, w \in BOOLEAN : CreateMTagAuto(b, n, t, w))
    \/ \E tg \in objs, d \in objs, lt \in Vals : CreateFeature(tg, d, lt)
    \/ \E s \in objs, n \in Names, v \in Vals : CreateProperty(s, n, v)

CreateFaults ==
    \E p \in objs \cup {FILE}, k \in { "block", "group", "array", "frame", "tag", "mtag", "source", "section", "property" },
       why \in { "EmptyName", "SlashName", "EmptyType", "BadArgument" } :
          \* BadArgument: a free name, but an argument of the wrong kind - an unknown element type or unconvertible
          \* data (array), a cell that does not fit its column (frame), a non-numeric position (tag, multi-tag)
          /\ (why = "BadArgument" => k \in { "array", "frame", "tag", "mtag" })
          /\ ~(k = "property" /\ why = "EmptyType")
          /\ ~(p = FILE /\ why = "EmptyName")      \* File.create_block / create_section generate a name: not a refusal
          /\ CreateBadName(k, p, why)

(***************************************************************************)
(* attributes, data, timestamps                                            *)
(***************************************************************************)
HasTyp(k) == k \notin { "property" }
HasDef(k) == k \notin { "feature" }

SetAttr(o, f, v) ==
    LET a == [name |-> "SetAttr", o |-> o, f |-> f, v |-> v, out |-> "ok"] IN
    /\ CanStep /\ o \in objs
    /\ \/ (f = "typ" /\ HasTyp(Kind(o)) /\ v # None)
       \/ (f = "def" /\ HasDef(Kind(o)))
    /\ rec' = [rec EXCEPT ![o] = IF Kind(o) = "property"
                                    THEN [@ EXCEPT !.def = v]                 \* as built: no timestamp update
                                    ELSE Touch(IF f = "typ" THEN [@ EXCEPT !.typ = v] ELSE [@ EXCEPT !.def = v])]
    /\ Log(a) /\ UNCHANGED << objs, next, clock, auto, fts >>

\* type = None is refused for every entity that has a type
SetTypNone(o) ==
    LET a == [name |-> "SetAttr", o |-> o, f |-> "typ", v |-> None, out |-> "refused:NoneType"] IN
    /\ CanStep /\ o \in objs /\ HasTyp(Kind(o)) /\ Kind(o) # "feature" /\ "NoneType" \in Faults
    /\ Refuse(a, "refused:NoneType")

\* new data for an array (whole-array write) or new values for a property
WriteData(o, v) ==
    LET a == [name |-> "WriteData", o |-> o, v |-> v, out |-> "ok"] IN
    /\ CanStep /\ o \in objs /\ Kind(o) \in { "array", "property" }
    /\ rec' = [rec EXCEPT ![o].dtok = v]
    /\ Log(a) /\ UNCHANGED << objs, next, clock, auto, fts >>

Attr == \/ \E o \in objs, f \in { "typ", "def" }, v \in Vals \cup {None} : SetAttr(o, f, v)
        \/ \E o \in objs : SetTypNone(o)
Data == \E o \in objs, v \in Vals : WriteData(o, v)

Tick == /\ CanStep /\ clock < MaxClock
        /\ clock' = clock + 1
        /\ Log([name |-> "Tick", out |-> "ok"])
        /\ UNCHANGED << objs, rec, next, auto, fts >>

ToggleAuto == /\ CanStep
              /\ auto' = ~auto
              /\ Log([name |-> "ToggleAuto", to |-> ~auto, out |-> "ok"])
              /\ UNCHANGED << objs, rec, next, clock, fts >>

\* force_created_at / force_updated_at with an explicit time (any tick)
Force(o, which, t) ==
    LET a == [name |-> "Force", o |-> o, which |-> which, t |-> t, out |-> "ok"] IN
    /\ CanStep /\ o \in objs \cup {FILE} /\ Kind(o) # "feature"
    /\ IF o = FILE
         THEN fts' = (IF which = "c" THEN [fts EXCEPT !.c = t] ELSE [fts EXCEPT !.u = t]) /\ UNCHANGED rec
         ELSE rec' = [rec EXCEPT ![o] = IF which = "c" THEN [@ EXCEPT !.c = t] ELSE [@ EXCEPT !.u = t]] /\ UNCHANGED fts
    /\ Log(a) /\ UNCHANGED << objs, next, clock, auto >>

Time == \/ Tick \/ ToggleAuto
        \/ \E o \in objs \cup {FILE}, w \in { "c", "u" }, t \in { 1, MaxClock } : Force(o, w, t)

(***************************************************************************)
(* links                                                                   *)
(***************************************************************************)
\* may x be appended to list l of o ?  right kind, same block
\* (sources: anywhere in the block's source tree)
Linkable(o, l, x) == /\ Kind(x) = ListKind(l)
                     /\ BlockOf(x) = BlockOf(o)

LinkAppend(o, l, x) ==
    LET a == [name |-> "LinkAppend", o |-> o, l |-> l, x |-> x, out |-> "ok"] IN
    /\ CanStep /\ o \in objs /\ x \in objs /\ l \in ListsOf(Kind(o))
    /\ Kind(x) \notin { "feature", "property" }
    /\ IF Kind(x) # ListKind(l) THEN "WrongKind" \in Faults /\ Refuse(a, "refused:WrongKind")
       ELSE IF BlockOf(x) # BlockOf(o) THEN "ForeignBlock" \in Faults /\ Refuse(a, "refused:ForeignBlock")
       ELSE \* as built: re-appending a member moves it to the end
            /\ rec' = [rec EXCEPT ![o].ls[l] = Append(SeqRemove(@, x), x)]
            /\ Log(a) /\ UNCHANGED << objs, next, clock, auto, fts >>

\* extend([x, y]) is all or nothing: a legal item followed by an illegal one refuses the whole call
LegalItem(o, l, x) == Kind(x) = ListKind(l) /\ BlockOf(x) = BlockOf(o)
LinkExtend(o, l, x, y) ==
    LET a == [name |-> "LinkExtend", o |-> o, l |-> l, x |-> x, y |-> y, out |-> "ok"] IN
    /\ CanStep /\ "extend" \in Ops /\ o \in objs /\ x \in objs /\ y \in objs /\ x # y /\ l \in ListsOf(Kind(o))
    /\ Kind(x) \notin { "feature", "property" } /\ Kind(y) \notin { "feature", "property" }
    /\ LegalItem(o, l, x)
    /\ IF ~LegalItem(o, l, y)
         THEN ("WrongKind" \in Faults \/ "ForeignBlock" \in Faults) /\ Refuse(a, "refused:BadItem")
         ELSE /\ rec' = [rec EXCEPT ![o].ls[l] = Append(SeqRemove(Append(SeqRemove(@, x), x), y), y)]
              /\ Log(a) /\ UNCHANGED << objs, next, clock, auto, fts >>

LinkRemove(o, l, x) ==
    LET a == [name |-> "LinkRemove", o |-> o, l |-> l, x |-> x, out |-> "ok"] IN
    /\ CanStep /\ o \in objs /\ l \in ListsOf(Kind(o)) /\ InSeq(rec[o].ls[l], x)
    /\ rec' = [rec EXCEPT ![o].ls[l] = SeqRemove(@, x)]
    /\ Log(a) /\ UNCHANGED << objs, next, clock, auto, fts >>

\* removing something that is not a member is refused
LinkRemoveAbsent(o, l, x) ==
    LET a == [name |-> "LinkRemove", o |-> o, l |-> l, x |-> x, out |-> "refused:NotMember"] IN
    /\ CanStep /\ o \in objs /\ x \in objs /\ l \in ListsOf(Kind(o))
    /\ Kind(x) = ListKind(l) /\ ~InSeq(rec[o].ls[l], x) /\ "NotMember" \in Faults
    /\ Refuse(a, "refused:NotMember")

SetRole(o, r, x) ==
    LET a == [name |-> "SetRole", o |-> o, r |-> r, x |-> x, out |-> "ok"] IN
    /\ CanStep /\ o \in objs /\ x \in objs /\ r \in RolesOf(Kind(o))
    /\ Kind(x) \notin { "feature", "property" }
    \* positions / extents of the wrong kind: no property demands a refusal - not generated (left open)
    /\ (r \in { "positions", "extents" }) => Kind(x) = RoleKind(r)
    /\ IF Kind(x) \notin RoleKinds(r) THEN "WrongKind" \in Faults /\ Refuse(a, "refused:WrongKind")
       ELSE IF r # "metadata" /\ BlockOf(x) # BlockOf(o) THEN "ForeignBlock" \in Faults /\ Refuse(a, "refused:ForeignBlock")
       ELSE IF r = "data" /\ Kind(x) = "frame" /\ rec[o].typ = 1 THEN "BadLinkType" \in Faults /\ Refuse(a, "refused:BadLinkType")
       ELSE /\ rec' = [rec EXCEPT ![o] = IF r = "metadata" THEN [@ EXCEPT !.rl[r] = x]
                                                           ELSE Touch([@ EXCEPT !.rl[r] = x])]
            /\ Log(a) /\ UNCHANGED << objs, next, clock, auto, fts >>

ClearRole(o, r) ==
    LET a == [name |-> "ClearRole", o |-> o, r |-> r, out |-> "ok"] IN
    /\ CanStep /\ o \in objs /\ r \in RolesOf(Kind(o)) /\ r \in { "metadata", "extents" }
    /\ rec[o].rl[r] # None
    /\ rec' = [rec EXCEPT ![o] = IF r = "metadata" THEN [@ EXCEPT !.rl[r] = None]
                                                   ELSE Touch([@ EXCEPT !.rl[r] = None])]
    /\ Log(a) /\ UNCHANGED << objs, next, clock, auto, fts >>

\* positions of a multi-tag cannot be cleared
ClearPositions(o) ==
    LET a == [name |-> "ClearRole", o |-> o, r |-> "positions", out |-> "refused:Required"] IN
    /\ CanStep /\ o \in objs /\ Kind(o) = "mtag" /\ "Required" \in Faults
    /\ Refuse(a, "refused:Required")

Link == \/ \E o \in objs, l \in ListNames, x \in objs : LinkAppend(o, l, x) \/ LinkRemove(o, l, x) \/ LinkRemoveAbsent(o, l, x)
        \/ \E o \in objs, l \in ListNames, x \in objs, y \in objs : LinkExtend(o, l, x, y)
        \/ \E o \in objs, r \in RoleNames, x \in objs : SetRole(o, r, x)
        \/ \E o \in objs, r \in RoleNames : ClearRole(o, r)
        \/ \E o \in objs : ClearPositions(o)

(***************************************************************************)
(* deletion - written operationally, like the implementation:              *)
(* collect entity ids (the entity; for sources and sections the subtree),  *)
(* then remove every child link anywhere in the file whose target carries  *)
(* one of the ids; what the removed objects own becomes unreachable.       *)
(***************************************************************************)
DeleteIds(o) == IF Kind(o) \in { "source", "section" }
                  THEN { rec[x].eid : x \in { y \in Sub(o) : rec[y].kind = Kind(o) } }
                  ELSE { rec[o].eid }
Doomed(o) == { x \in objs : rec[x].eid \in DeleteIds(o) }
Gone(o)   == Closure(Doomed(o))

Strip(r, gone) == [r EXCEPT !.ls = [l \in ListNames |-> SeqFilter(r.ls[l], objs \ gone)],
                            !.rl = [q \in RoleNames |-> IF r.rl[q] \in gone THEN None ELSE r.rl[q]]]

Delete(o) ==
    LET a == [name |-> "Delete", o |-> o, out |-> "ok"]
        gone == Gone(o) IN
    /\ CanStep /\ o \in objs
    /\ objs' = objs \ gone
    /\ rec' = [x \in objs \ gone |-> Strip(rec[x], gone)]
    /\ Log(a) /\ UNCHANGED << next, clock, auto, fts >>

\* deleting by a name / id / index that does not exist is refused
DeleteAbsent(p, k) ==
    LET a == [name |-> "DeleteAbsent", owner |-> p, kind |-> k, out |-> "refused:NotFound"] IN
    /\ CanStep /\ p \in objs \cup {FILE} /\ Kind(p) \in OwnerKinds(k) /\ "NotFound" \in Faults
    /\ Refuse(a, "refused:NotFound")

Del == \/ \E o \in objs : Delete(o)
       \/ \E p \in objs \cup {FILE}, k \in KindSet : DeleteAbsent(p, k)

(***************************************************************************)
(* copies (C20): create_block / create_data_array / create_tag /           *)
(* create_multi_tag / create_property with copy_from, copy_section.        *)
(* The whole owned subtree is duplicated; links among the copied entities  *)
(* are remapped to the copies; entity ids are kept or all replaced by      *)
(* fresh ones.  Links that leave the copied subtree are left open (the     *)
(* library gives the copy a private duplicate of the target), so copies    *)
(* are generated only for subtrees that are closed under links.            *)
(***************************************************************************)
Copyable == { "block", "array", "frame", "tag", "mtag", "section", "property" }
Closed(S) == \A x \in S : /\ \A l \in ListNames : \A i \in 1..Len(rec[x].ls[l]) : rec[x].ls[l][i] \in S
                          /\ \A r \in RoleNames : rec[x].rl[r] # None => rec[x].rl[r] \in S
RankIn(x, S) == Cardinality({ y \in S : y <= x })
\* what a copy duplicates: the whole owned subtree, or - non-recursive section copy - the section with its properties
CopySet(src, deep) == IF deep THEN Sub(src)
                      ELSE {src} \cup { x \in objs : rec[x].owner = src /\ rec[x].kind = "property" }

Copy(src, dest, n, keepId, deep) ==
    LET S == CopySet(src, deep)
        k == Kind(src)
        new(x) == next + RankIn(x, S) - 1
        a == [name |-> "Copy", kind |-> k, src |-> src, dest |-> dest, n |-> n, keep |-> keepId, deep |-> deep,
              new |-> next, out |-> "ok"]
        cp(x) == [rec[x] EXCEPT !.owner = IF x = src THEN dest ELSE new(rec[x].owner),
                               !.name = IF x = src THEN n ELSE rec[x].name,
                               !.eid = IF keepId THEN rec[x].eid ELSE new(x),
                               !.ls = [l \in ListNames |-> [i \in 1..Len(rec[x].ls[l]) |-> new(rec[x].ls[l][i])]],
                               !.rl = [r \in RoleNames |-> IF rec[x].rl[r] = None THEN None ELSE new(rec[x].rl[r])]]
    IN
    /\ CanStep /\ src \in objs /\ k \in Copyable /\ dest \in objs \cup {FILE} /\ Kind(dest) \in OwnerKinds(k)
    /\ (~deep => k = "section")
    /\ dest \notin Sub(src)
    /\ IF NameTaken(dest, k, n) THEN "NameExists" \in Faults /\ Refuse(a, "refused:NameExists")
       ELSE /\ Closed(S) /\ next + Cardinality(S) - 1 <= MaxObj
            /\ \A kk \in KindSet : Count(kk) + Cardinality({ x \in S : rec[x].kind = kk }) <= Limit[kk]
            /\ objs' = objs \cup { new(x) : x \in S }
            /\ rec' = [o \in objs \cup { new(x) : x \in S } |->
                          IF o \in objs THEN rec[o] ELSE cp(CHOOSE x \in S : new(x) = o)]
            /\ next' = next + Cardinality(S)
            /\ UNCHANGED << clock, auto, fts >> /\ Log(a)

CopyOps == \E src \in objs, dest \in objs \cup {FILE}, n \in Names, keep \in CopyKeep, deep \in BOOLEAN :
               Copy(src, dest, n, keep, deep)

(***************************************************************************)
(* specification                                                           *)
(***************************************************************************)
Init == /\ objs = {} /\ rec = << >> /\ next = 1 /\ clock = 1 /\ auto = TRUE
        /\ fts = [c |-> 1, u |-> 1]
        /\ act = [name |-> "Init", out |-> "ok"] /\ hist = << >>

Next == \/ ("create" \in Ops /\ Create)
        \/ ("createfault" \in Ops /\ CreateFaults)
        \/ ("attr" \in Ops /\ Attr)
        \/ ("data" \in Ops /\ Data)
        \/ ("time" \in Ops /\ Time)
        \/ ("link" \in Ops /\ Link)
        \/ ("delete" \in Ops /\ Del)
        \/ ("copy" \in Ops /\ CopyOps)

Spec == Init /\ [][Next]_vars

(***************************************************************************)
(* invariants                                                              *)
(***************************************************************************)
TypeOK ==
    /\ objs \subseteq 1..MaxObj /\ next \in 1..(MaxObj + 1) /\ DOMAIN rec = objs
    /\ \A o \in objs :
         /\ rec[o].kind \in KindSet /\ o < next
         /\ rec[o].owner \in objs \cup {FILE} /\ Kind(rec[o].owner) \in OwnerKinds(rec[o].kind)

NameUnique == \A o1, o2 \in objs :
    (o1 # o2 /\ rec[o1].owner = rec[o2].owner /\ rec[o1].kind = rec[o2].kind /\ rec[o1].kind # "feature")
        => rec[o1].name # rec[o2].name

EidUnique == \A o1, o2 \in objs : o1 # o2 => rec[o1].eid # rec[o2].eid

\* no list and no role link anywhere yields something that is not a live object
NoDangling == \A o \in objs :
    /\ \A l \in ListNames : \A i \in 1..Len(rec[o].ls[l]) : rec[o].ls[l][i] \in objs
    /\ \A r \in RoleNames : rec[o].rl[r] # None => rec[o].rl[r] \in objs

\* link lists hold the right kind, from the same block, without repeats
LinkKindAndBlock == \A o \in objs : \A l \in ListNames :
    /\ (l \notin ListsOf(Kind(o))) => rec[o].ls[l] = << >>
    /\ \A i \in 1..Len(rec[o].ls[l]) :
          LET x == rec[o].ls[l][i] IN
          /\ x \in objs => (Kind(x) = ListKind(l) /\ BlockOf(x) = BlockOf(o))
          /\ \A j \in 1..Len(rec[o].ls[l]) : j # i => rec[o].ls[l][j] # x

RoleKindOK == \A o \in objs : \A r \in RoleNames :
    (rec[o].rl[r] # None /\ rec[o].rl[r] \in objs) =>
        /\ r \in RolesOf(Kind(o)) /\ Kind(rec[o].rl[r]) \in RoleKinds(r)
        /\ r # "metadata" => BlockOf(rec[o].rl[r]) = BlockOf(o)      \* positions, extents, feature data stay in the block

(***************************************************************************)
(* action properties                                                       *)
(***************************************************************************)
Refused == act'.out # "ok"
IsAct(n) == act'.name = n

\* C12: a refused call changes nothing
RefusedUnchanged == [][Refused => View' = View]_vars

\* C03: ids and names never change, creation order is the order of numbers
IdNameStable == [][\A o \in objs \cap objs' : rec'[o].eid = rec[o].eid /\ rec'[o].name = rec[o].name
                                              /\ rec'[o].kind = rec[o].kind /\ rec'[o].owner = rec[o].owner]_vars
NumbersNeverReused == [][\A o \in objs' \ objs : o >= next]_vars

\* C04: deletion removes exactly the entity, what it owns, and links to those;
\* every survivor keeps everything else (declarative frame condition, checked
\* against the operational definition above)
DeleteFrame == [][IsAct("Delete") /\ ~Refused =>
    LET o == act'.o
        expectGone == Sub(o) IN
    /\ objs' = objs \ expectGone
    /\ \A x \in objs' :
         /\ rec'[x].kind = rec[x].kind /\ rec'[x].name = rec[x].name /\ rec'[x].owner = rec[x].owner
         /\ rec'[x].typ = rec[x].typ /\ rec'[x].def = rec[x].def /\ rec'[x].dtok = rec[x].dtok
         /\ rec'[x].c = rec[x].c /\ rec'[x].u = rec[x].u
         /\ \A l \in ListNames : rec'[x].ls[l] = SeqFilter(rec[x].ls[l], objs')
         /\ \A r \in RoleNames : rec'[x].rl[r] = (IF rec[x].rl[r] \in expectGone THEN None ELSE rec[x].rl[r])]_vars

\* C04: unlinking never deletes
UnlinkKeepsTarget == [][(IsAct("LinkRemove") \/ IsAct("ClearRole")) => objs' = objs]_vars

\* C19
CreatedAtFixed == [][\A o \in objs \cap objs' :
    rec'[o].c # rec[o].c => (IsAct("Force") /\ act'.o = o /\ act'.which = "c")]_vars
\* (a time forced into the future is the one exception: the next automatic update returns to "now")
UpdatedMonotone == [][\A o \in objs \cap objs' :
    rec'[o].u < rec[o].u => (IsAct("Force") \/ rec[o].u > clock)]_vars
TimestampLocality == [][\A o \in objs \cap objs' :
    rec'[o].u # rec[o].u => (act'.name \in { "SetAttr", "SetRole", "ClearRole", "Force" } /\ act'.o = o)]_vars
NoAutoNoChange == [][(~auto /\ ~IsAct("Force")) =>
    \A o \in objs \cap objs' : rec'[o].u = rec[o].u /\ rec'[o].c = rec[o].c]_vars
ListedAttrStamps == [][(auto /\ IsAct("SetAttr") /\ ~Refused /\ Kind(act'.o) # "property") =>
    rec'[act'.o].u = clock]_vars


\* C20: a copy is complete (same content, recursively - or, for a non-recursive section copy, the section and its
\* properties and nothing below), its internal links point to the copies,
\* nothing else changes, and the ids are kept or all fresh
CopyComplete == [][(IsAct("Copy") /\ ~Refused) =>
    LET src == act'.src
        S == CopySet(src, act'.deep)
        new(x) == act'.new + RankIn(x, S) - 1 IN
    /\ objs' = objs \cup { new(x) : x \in S }
    /\ \A o \in objs : rec'[o] = rec[o]                                    \* the source and everything else: untouched
    /\ \A x \in S :
         LET y == new(x) IN
         /\ rec'[y].kind = rec[x].kind /\ rec'[y].typ = rec[x].typ /\ rec'[y].def = rec[x].def
         /\ rec'[y].dtok = rec[x].dtok /\ rec'[y].dims = rec[x].dims
         /\ rec'[y].name = (IF x = src THEN act'.n ELSE rec[x].name)
         /\ rec'[y].owner = (IF x = src THEN act'.dest ELSE new(rec[x].owner))
         /\ \A l \in ListNames : Len(rec'[y].ls[l]) = Len(rec[x].ls[l]) /\
               \A i \in 1..Len(rec[x].ls[l]) : rec'[y].ls[l][i] = new(rec[x].ls[l][i])    \* links remapped
         /\ \A r \in RoleNames : rec'[y].rl[r] = (IF rec[x].rl[r] = None THEN None ELSE new(rec[x].rl[r]))
         /\ rec'[y].eid = (IF act'.keep THEN rec[x].eid ELSE y)]_vars
\* fresh ids are unique in the file
FreshIdsUnique == (TRUE \notin CopyKeep) => EidUnique
\* C20: after a copy, whatever happens to one side is not visible on the other: every action changes records
\* only of the objects it names (their owned subtree and objects linking to them), never by way of a copy relation;
\* stated as: an action on an object leaves every object outside the subtrees of its arguments and outside the
\* link neighbourhood unchanged in content (typ, def, dtok)
CopyIndependent == [][\A o \in objs \cap objs' :
    (rec'[o].typ # rec[o].typ \/ rec'[o].def # rec[o].def \/ rec'[o].dtok # rec[o].dtok) =>
        (act'.name \in { "SetAttr", "WriteData" } /\ act'.o = o)]_vars

(***************************************************************************)
(* export                                                                  *)
(***************************************************************************)
RECURSIVE SetToSeq(_)
SetToSeq(S) == IF S = {} THEN << >> ELSE LET m == CHOOSE x \in S : \A y \in S : x <= y IN << m >> \o SetToSeq(S \ {m})

ObjView(rc, o) == [id |-> o, kind |-> rc[o].kind, name |-> rc[o].name, owner |-> rc[o].owner, eid |-> rc[o].eid,
                   typ |-> rc[o].typ, def |-> rc[o].def, ls |-> rc[o].ls, rl |-> rc[o].rl,
                   dtok |-> rc[o].dtok, c |-> rc[o].c, u |-> rc[o].u]
Vis(ob, rc, ck, au, ft) == [objs |-> [i \in 1..Cardinality(ob) |-> ObjView(rc, SetToSeq(ob)[i])],
                            clock |-> ck, auto |-> au, fts |-> ft]

(***************************************************************************)
(* observables for C13: breadth-first searches                             *)
(***************************************************************************)
RECURSIVE Flat(_)
Flat(ss) == IF ss = << >> THEN << >> ELSE Head(ss) \o Flat(Tail(ss))
ChildSeqOf(ob, rc, o, k) == SetToSeq({ x \in ob : rc[x].owner = o /\ rc[x].kind = k })
RECURSIVE Levels(_, _, _, _, _, _)
\* cur: the entities of level lvl in order; children are included while their level <= limit
Levels(ob, rc, cur, k, lvl, limit) ==
    IF cur = << >> THEN << >>
    ELSE cur \o (IF lvl + 1 <= limit
                   THEN Levels(ob, rc, Flat([i \in 1..Len(cur) |-> ChildSeqOf(ob, rc, cur[i], k)]), k, lvl + 1, limit)
                   ELSE << >>)
Unlimited == 1000
FindLimits == { 0, 1, 2, 3, 4, Unlimited }
\* search started at an entity (level 0) or at the file / a block (its children are level 1)
FindFrom(ob, rc, root, k, limit) ==
    IF root # FILE /\ rc[root].kind = k
      THEN Levels(ob, rc, << root >>, k, 0, limit)
      ELSE Levels(ob, rc, ChildSeqOf(ob, rc, root, k), k, 1, limit)
ObsOf(ob, rc) ==
    LET secroots == {FILE} \cup { o \in ob : rc[o].kind = "section" }
        srcroots == { o \in ob : rc[o].kind \in { "block", "source" } }
        items == { << r, "section", l >> : r \in secroots, l \in FindLimits } \cup
                 { << r, "source", l >> : r \in srcroots, l \in FindLimits }
    IN  [i \in items |-> FindFrom(ob, rc, i[1], i[2], i[3])]
ObsSeq(ob, rc) ==
    LET f == ObsOf(ob, rc)
        dom == DOMAIN f
    IN  { [root |-> i[1], kind |-> i[2], limit |-> i[3], res |-> f[i]] : i \in dom }

\* C13: a search returns each entity at most once, only entities below the root (or the root),
\* and a larger limit returns a super-sequence that starts with the smaller result
SearchSound == ("obs" \in Ops) =>
    \A it \in ObsSeq(objs, rec) :
        /\ \A i, j \in 1..Len(it.res) : i # j => it.res[i] # it.res[j]
        /\ \A i \in 1..Len(it.res) : it.res[i] \in (IF it.root = FILE THEN objs ELSE Sub(it.root)) /\ rec[it.res[i]].kind = it.kind
        /\ it.limit = Unlimited =>
              { it.res[i] : i \in 1..Len(it.res) } =
              { x \in (IF it.root = FILE THEN objs ELSE Sub(it.root)) : rec[x].kind = it.kind }
SearchMonotone == ("obs" \in Ops) =>
    \A a \in ObsSeq(objs, rec), b \in ObsSeq(objs, rec) :
        (a.root = b.root /\ a.kind = b.kind /\ a.limit <= b.limit) =>
            (Len(a.res) <= Len(b.res) /\ SubSeq(b.res, 1, Len(a.res)) = a.res)

\* scripted prefix: while the script lasts, only the scripted call is taken
Scripted == Len(hist) < Len(Script) => act' = Script[Len(hist) + 1]

DoExport == PrintT(<<"TX", ToJson([hist |-> hist, act |-> act',
                                 from |-> Vis(objs, rec, clock, auto, fts),
                                 to |-> IF View' = View THEN [same |-> TRUE] ELSE Vis(objs', rec', clock', auto', fts'),
                                 obs |-> IF "obs" \in Ops THEN ObsSeq(objs', rec') ELSE {}])>>)
Export == Scripted /\ DoExport

\* leaner lines for -simulate (TLC evaluates the export for every candidate successor of a level): the history is
\* replaced by its length and last element, the pre-state is only printed for the first step
DoExportSim == PrintT(<<"TX", ToJson([hl |-> Len(hist), last |-> IF hist = << >> THEN [name |-> "none"] ELSE hist[Len(hist)],
                                    act |-> act',
                                    from |-> IF hist = << >> THEN Vis(objs, rec, clock, auto, fts) ELSE [skipped |-> TRUE],
                                    to |-> IF View' = View THEN [same |-> TRUE] ELSE Vis(objs', rec', clock', auto', fts')])>>)
ExportSim == Scripted /\ DoExportSim
=============================================================================
