SPECIFICATION Spec
CONSTANTS
  Names = {"n1", "n2"}
  Vals = {1}
  MaxObj = 4
  MaxDepth = 4
  MaxClock = 1
  Limit <- Limit_C04
  Ops = {"create", "mtagauto", "createfault", "attr", "link", "delete"}
  Faults = {"DuplicateName", "BadName", "NoneType", "WrongKind", "ForeignBlock", "NotMember", "Required", "NotFound", "BadLinkType"}
  Script <- NoScript
  CopyKeep = {}
VIEW View
INVARIANT TypeOK
INVARIANT NameUnique
INVARIANT EidUnique
INVARIANT NoDangling
INVARIANT LinkKindAndBlock
INVARIANT RoleKindOK
PROPERTY RefusedUnchanged
PROPERTY IdNameStable
PROPERTY NumbersNeverReused
PROPERTY DeleteFrame
PROPERTY UnlinkKeepsTarget
PROPERTY CreatedAtFixed
PROPERTY UpdatedMonotone
PROPERTY TimestampLocality
PROPERTY NoAutoNoChange
PROPERTY ListedAttrStamps
ACTION_CONSTRAINT Export
CHECK_DEADLOCK FALSE
