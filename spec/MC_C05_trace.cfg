SPECIFICATION TraceSpec
CONSTANTS
  Targets <- TT
  RankOf <- TRanks
  Toks = {1, 2, 3}
  MaxDims = 4
  MaxDepth = 1000000
  Ops = {"faults", "target", "deletedims"}
INVARIANT TicksXorLink
INVARIANT LinkOK
PROPERTY RefusedUnchanged
PROPERTY AliasReports
PROPERTY DimFrame
POSTCONDITION TraceAccepted
CHECK_DEADLOCK FALSE
