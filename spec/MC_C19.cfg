SPECIFICATION Spec
CONSTANTS
  Names = {"n1"}
  Vals = {1, 2}
  MaxObj = 3
  MaxDepth = 5
  MaxClock = 3
  Limit <- Limit_C19
  Ops = {"create", "attr", "time", "link"}
  Faults = {"NoneType"}
  Script <- NoScript
  CopyKeep = {}
VIEW View
INVARIANT TypeOK
INVARIANT NameUnique
INVARIANT EidUnique
INVARIANT NoDangling
INVARIANT LinkKindAndBlock
INVARIANT RoleKindOK
PROPERTY RefusedUnchanged
PROPERTY IdNameStable
PROPERTY NumbersNeverReused
PROPERTY DeleteFrame
PROPERTY UnlinkKeepsTarget
PROPERTY CreatedAtFixed
PROPERTY UpdatedMonotone
PROPERTY TimestampLocality
PROPERTY NoAutoNoChange
PROPERTY ListedAttrStamps
ACTION_CONSTRAINT Export
CHECK_DEADLOCK FALSE
