SPECIFICATION FairSpec
CONSTANTS
  P = {1, 2}
  D = {1}
  MaxCrashes = 2
  MaxDepth = 40
PROPERTY Completes
CHECK_DEADLOCK FALSE
