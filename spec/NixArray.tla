------------------------------ MODULE NixArray ------------------------------
(***************************************************************************)
(* One n-dimensional data array: which write every cell's content comes    *)
(* from (properties C01, C15; index expressions from NixIndexing, C06).    *)
(*                                                                         *)
(*   shape    sequence of extents                                          *)
(*   cells    row-major sequence of stamps << write number, offset inside  *)
(*            the block that write stored >>; << 0, 0 >> = never written   *)
(*            (fill value)                                                 *)
(*   coef, origin   calibration (polynomial coefficients, expansion origin,*)
(*            NONE = not set)                                              *)
(*                                                                         *)
(* The element type, the concrete values, compression and the handle used  *)
(* for each call belong to the concretisation layer of the harness: they   *)
(* do not occur in any definition here - which is the specification's way  *)
(* of saying that they never change what is read.                          *)
(***************************************************************************)
EXTENDS NixIndexing, TLC, Json

CONSTANTS
    InitShapes,    \* shapes an array can be created with
    MaxCells,      \* bound on the number of cells (appends / resizes stay below)
    AppendLens,    \* lengths appended along an axis
    ResizeTo,      \* extents a resize may set per axis
    AssignExprs,   \* function rank -> set of index expressions used for region assignment
    CoefSets,      \* coefficient sequences for calibration
    Origins,       \* expansion origins (NONE = clear)
    MaxDepth,
    Ops

Fill == << 0, 0 >>

VARIABLES shape, cells, nw, coef, origin, made, act, hist
vars == << shape, cells, nw, coef, origin, made, act, hist >>
State == << shape, cells, nw, coef, origin, made >>
\* the view keeps one history per state AND per "the last call was refused": every call is also explored right after a
\* refused one (a refusal stutters, but what it leaves behind in the implementation's session would show next)
View == << State, act.out # "ok" >>

Rank == Len(shape)
CanStep == Len(hist) < MaxDepth
Log(a) == act' = a /\ hist' = Append(hist, a)
Refuse(a) == Log(a) /\ UNCHANGED << shape, cells, nw, coef, origin, made >>

Create(sh, withData) ==
    /\ ~made /\ CanStep
    /\ made' = TRUE /\ shape' = sh
    /\ cells' = [j \in 1..Prod(sh) |-> IF withData THEN << 1, j - 1 >> ELSE Fill]
    /\ nw' = IF withData THEN 1 ELSE 0
    /\ Log([name |-> "Create", shape |-> sh, data |-> withData, out |-> "ok"])
    /\ UNCHANGED << coef, origin >>

\* creation with data whose shape differs from the requested shape is refused
CreateMismatch(sh) ==
    /\ ~made /\ CanStep /\ "faults" \in Ops
    /\ Refuse([name |-> "CreateMismatch", shape |-> sh, out |-> "refused:ShapeMismatch"])

WriteAll ==
    /\ made /\ CanStep
    /\ cells' = [j \in 1..Prod(shape) |-> << nw + 1, j - 1 >>] /\ nw' = nw + 1
    /\ Log([name |-> "WriteAll", out |-> "ok"])
    /\ UNCHANGED << shape, coef, origin, made >>

Assign(e) ==
    LET r == Resolve(e, shape)
        a == [name |-> "Assign", e |-> e, block |-> IF r.ok THEN BlockShape(r) ELSE << >>,
              rshape |-> IF r.ok THEN ResultShape(r) ELSE << >>, out |-> "ok"] IN
    /\ made /\ CanStep
    /\ IF r.ok
         THEN /\ cells' = [j \in 1..Prod(shape) |->
                             LET idx == Unlinear(j - 1, shape) IN
                             IF Selected(r, idx) THEN << nw + 1, BlockOffset(r, idx) >> ELSE cells[j]]
              /\ nw' = nw + 1 /\ Log(a)
              /\ UNCHANGED << shape, coef, origin, made >>
         ELSE "faults" \in Ops /\ Refuse([a EXCEPT !.out = "refused:IndexError"])

AppendAx(axis, k) ==
    LET ns == [shape EXCEPT ![axis] = @ + k]
        bs == [shape EXCEPT ![axis] = k] IN
    /\ made /\ CanStep /\ axis \in 1..Rank /\ Prod(ns) <= MaxCells
    /\ shape' = ns
    /\ cells' = [j \in 1..Prod(ns) |->
                    LET idx == Unlinear(j - 1, ns) IN
                    IF idx[axis] < shape[axis] THEN cells[Linear(idx, shape) + 1]
                    ELSE << nw + 1, Linear([idx EXCEPT ![axis] = @ - shape[axis]], bs) >>]
    /\ nw' = nw + 1
    /\ Log([name |-> "Append", axis |-> axis, k |-> k, block |-> bs, out |-> "ok"])
    /\ UNCHANGED << coef, origin, made >>

\* data of another rank, or not matching off the axis, is refused
\* creation refused for an argument of the wrong kind (the array must not exist afterwards)
CreateBadKinds == { "dtype_unknown", "object_data", "mixed_text", "label_type", "unit_type" }
CreateBad(kind) ==
    /\ ~made /\ CanStep /\ "faults" \in Ops
    /\ Refuse([name |-> "CreateBad", kind |-> kind, out |-> "refused:BadArgument"])

AppendBad(kind) ==
    /\ made /\ CanStep /\ "faults" \in Ops
    /\ (kind = "shape") => Rank >= 2
    /\ Refuse([name |-> "AppendBad", kind |-> kind, out |-> "refused:ValueError"])

Resize(ns) ==
    /\ made /\ CanStep /\ Len(ns) = Rank /\ ns # shape /\ Prod(ns) <= MaxCells
    /\ shape' = ns
    /\ cells' = [j \in 1..Prod(ns) |->
                    LET idx == Unlinear(j - 1, ns) IN
                    IF \A d \in 1..Rank : idx[d] < shape[d] THEN cells[Linear(idx, shape) + 1] ELSE Fill]
    /\ Log([name |-> "Resize", shape |-> ns, out |-> "ok"])
    /\ UNCHANGED << nw, coef, origin, made >>

SetCoef(c) ==
    /\ made /\ CanStep /\ c # coef
    /\ coef' = c /\ Log([name |-> "SetCoef", c |-> c, out |-> "ok"])
    /\ UNCHANGED << shape, cells, nw, origin, made >>

SetOrigin(o) ==
    /\ made /\ CanStep /\ o # origin
    /\ origin' = o /\ Log([name |-> "SetOrigin", o |-> o, out |-> "ok"])
    /\ UNCHANGED << shape, cells, nw, coef, made >>

\* coefficients that are not numbers are refused - and the stored ones stay
SetCoefBad ==
    /\ made /\ CanStep /\ "faults" \in Ops
    /\ Refuse([name |-> "SetCoefBad", out |-> "refused:BadArgument"])

Init == /\ shape = << >> /\ cells = << >> /\ nw = 0 /\ coef = << >> /\ origin = NONE /\ made = FALSE
        /\ act = [name |-> "Init", out |-> "ok"] /\ hist = << >>

Next == \/ \E sh \in InitShapes, d \in BOOLEAN : Create(sh, d)
        \/ \E sh \in InitShapes : CreateMismatch(sh)
        \/ \E kind \in CreateBadKinds : CreateBad(kind)
        \/ ("write" \in Ops /\ WriteAll)
        \/ ("assign" \in Ops /\ made /\ \E e \in AssignExprs[Rank] : Assign(e))
        \/ ("append" \in Ops /\ \E ax \in 1..4, k \in AppendLens : AppendAx(ax, k))
        \/ ("append" \in Ops /\ \E kind \in { "rank", "shape" } : AppendBad(kind))
        \/ ("resize" \in Ops /\ made /\ \E ns \in [1..Rank -> ResizeTo] : Resize(ns))
        \/ ("calib" \in Ops /\ \E c \in CoefSets : SetCoef(c))
        \/ ("calib" \in Ops /\ \E o \in Origins : SetOrigin(o))
        \/ ("calib" \in Ops /\ SetCoefBad)

Spec == Init /\ [][Next]_vars

(***************************************************************************)
(* what a read returns                                                     *)
(***************************************************************************)
\* raw integer content of a stamp for the calibration checks (small values,
\* so every polynomial is exact in double precision)
RawVal(st) == IF st = Fill THEN 0 ELSE ((st[1] * 5 + st[2] * 3) % 7) - 3

Calibrated == coef # << >> \/ origin \notin { NONE, 0 }
RECURSIVE PolyAt(_, _, _)
PolyAt(c, x, i) == IF i > Len(c) THEN 0 ELSE c[i] + x * PolyAt(c, x, i + 1)      \* Horner
\* missing coefficients with an origin: only the shift is applied (x - o)
ReadVal(st) == LET x == RawVal(st) - (IF origin = NONE THEN 0 ELSE origin) IN
               IF ~Calibrated THEN RawVal(st)
               ELSE IF coef = << >> THEN x ELSE PolyAt(coef, x, 1)

(***************************************************************************)
(* invariants and action properties                                        *)
(***************************************************************************)
ShapeOK == made => (Len(cells) = Prod(shape) /\ \A d \in 1..Rank : shape[d] >= 0)

IsAct(n) == act'.name = n
Refused == act'.out # "ok"
RefusedUnchanged == [][Refused => State' = State]_vars

\* calibration never touches the stored values
CalibrationLeavesRaw == [][(IsAct("SetCoef") \/ IsAct("SetOrigin")) => (cells' = cells /\ shape' = shape)]_vars

\* appending keeps every existing cell where it was
AppendPreserves == [][(IsAct("Append") /\ ~Refused) =>
    \A j \in 1..Prod(shape) : cells'[Linear(Unlinear(j - 1, shape), shape') + 1] = cells[j]]_vars

\* resizing keeps the overlap and fills the rest
ResizePreserves == [][IsAct("Resize") =>
    \A j \in 1..Prod(shape') :
        LET idx == Unlinear(j - 1, shape') IN
        cells'[j] = (IF \A d \in 1..Rank : idx[d] < shape[d] THEN cells[Linear(idx, shape) + 1] ELSE Fill)]_vars

\* a region assignment changes exactly the addressed cells
AssignFrame == [][(IsAct("Assign") /\ ~Refused) =>
    LET r == Resolve(act'.e, shape) IN
    \A j \in 1..Prod(shape) :
        (cells'[j] # cells[j]) => Selected(r, Unlinear(j - 1, shape))]_vars

\* slicing and calibration commute: the calibrated value of a cell does not depend on how it is addressed
\* (true by construction: ReadVal is defined per cell) - stated for the record
Export == PrintT(<<"TX", ToJson([hist |-> hist, act |-> act',
    from |-> [shape |-> shape, cells |-> cells, coef |-> coef, origin |-> origin, made |-> made,
              raw |-> [j \in 1..Len(cells) |-> RawVal(cells[j])]],
    to |-> [shape |-> shape', cells |-> cells', coef |-> coef', origin |-> origin', made |-> made',
            raw |-> [j \in 1..Len(cells') |-> RawVal(cells'[j])],
            cal |-> [j \in 1..Len(cells') |->
                        LET st == cells'[j]
                            x == RawVal(st) - (IF origin' = NONE THEN 0 ELSE origin') IN
                        IF ~(coef' # << >> \/ origin' \notin { NONE, 0 }) THEN RawVal(st)
                        ELSE IF coef' = << >> THEN x ELSE PolyAt(coef', x, 1)],
            calibrated |-> (coef' # << >> \/ origin' \notin { NONE, 0 })]])>>)
=============================================================================
