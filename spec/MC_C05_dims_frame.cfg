SPECIFICATION Spec
CONSTANTS
  Targets <- T3
  RankOf <- RanksF
  Toks = {1, 2}
  MaxDims = 2
  MaxDepth = 4
  Ops = {"faults", "target", "deletedims"}
VIEW View
INVARIANT TicksXorLink
INVARIANT LinkOK
PROPERTY RefusedUnchanged
PROPERTY AliasReports
PROPERTY DimFrame
ACTION_CONSTRAINT Export
CHECK_DEADLOCK FALSE
