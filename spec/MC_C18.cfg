SPECIFICATION Spec
CONSTANTS
  P = {1, 2, 3}
  D = {1, 2}
  MaxCrashes = 2
  MaxDepth = 18
VIEW View
INVARIANT VersionLast
INVARIANT Idempotent
PROPERTY OldStillRecognised
PROPERTY Monotone
PROPERTY PlanOK
ACTION_CONSTRAINT Export
CHECK_DEADLOCK FALSE
