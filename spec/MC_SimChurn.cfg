SPECIFICATION Spec
CONSTANTS
  Names = {"n1", "n2"}
  Vals = {1}
  MaxObj = 40
  MaxDepth = 24
  MaxClock = 1
  Limit <- Limit_C03
  Ops = {"create", "delete"}
  Faults = {"DuplicateName", "NotFound"}
  Script <- NoScript
  CopyKeep = {}
VIEW View
ACTION_CONSTRAINT ExportSim
CHECK_DEADLOCK FALSE
