SPECIFICATION Spec
CONSTANTS
  G = 4
  Intervals = {1, 2, 3, 6}
  Offsets <- Q_Offsets
  SampledPos <- Q_SampledPos
  SampledRel = FALSE
  TickVals = {0, 1, 2, 3, 5, 6}
  MaxTicks = 4
  RangePos <- Q_RangePos
  LabelCounts = {0, 1, 2, 4}
  SetPos <- Q_SetPos
  BigI = 64
  Kinds = {"sampled", "range", "set"}
INVARIANT RoundTrip
INVARIANT ModeMeaning
INVARIANT DecompOK
INVARIANT Contiguous
INVARIANT ExclusiveSubset
INVARIANT BigEnough
ACTION_CONSTRAINT Export
CHECK_DEADLOCK FALSE
