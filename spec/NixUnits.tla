------------------------------ MODULE NixUnits ------------------------------
(***************************************************************************)
(* SI units as nixio.util.units is meant to understand them (property C09; *)
(* also used by NixTagging for C08 and by NixValidate for C14).            *)
(*                                                                         *)
(* An atomic unit is a triple (prefix, unit, power).  Prefixes are powers  *)
(* of ten, so scaling is modelled by its decimal exponent:                 *)
(*     Scale10(a, b) = (Exp(a.prefix) - Exp(b.prefix)) * PowVal(a.power)   *)
(* and the factor the implementation has to return is 10^Scale10.          *)
(*                                                                         *)
(* Function-like module: Init ranges over configurations, Next over the    *)
(* queries of a configuration; every terminal state is one test vector     *)
(* (input + expected result) that the harness replays against the code.    *)
(***************************************************************************)
EXTENDS NixUnitTable, FiniteSets, TLC, Json

CONSTANTS
    CrossPrefixes,   \* prefixes used for the "different unit / power" vectors
    CompoundPool,    \* atomic unit strings used to build compounds
    MaxCompound,     \* compounds have 2..MaxCompound atoms
    Kinds            \* which vector kinds this configuration produces

Nil == [kind |-> "nil"]

(***************************************************************************)
(* The grammar is unambiguous iff no string prefix \o unit has two         *)
(* readings (the power part is delimited by "^", which no unit contains).  *)
(***************************************************************************)
PU == Prefix \X Unit
AmbiguousPU == { x \in PU : \E y \in PU : y # x /\ x[1] \o x[2] = y[1] \o y[2] }

(***************************************************************************)
(* compounds                                                               *)
(***************************************************************************)
Seps == { "*", "/" }
SeqsOf(S, n) == [1..n -> S]
Compounds == UNION { { [atoms |-> a, seps |-> s] : a \in SeqsOf(CompoundPool, n),
                                                    s \in SeqsOf(Seps, n - 1) }
                     : n \in 2..MaxCompound }
RECURSIVE Join(_, _, _)
Join(a, s, i) == IF i = Len(a) THEN a[i] ELSE a[i] \o s[i] \o Join(a, s, i + 1)
CompoundStr(c) == Join(c.atoms, c.seps, 1)

(***************************************************************************)
(* configurations and queries                                              *)
(***************************************************************************)
VARIABLES cfg, q, r
vars == << cfg, q, r >>

Configs ==
    (IF "unit" \in Kinds THEN { [kind |-> "unit", u |-> u, k |-> k] : u \in Unit, k \in Power } ELSE {})
    \cup
    (IF "compound" \in Kinds THEN { [kind |-> "compound", c |-> c] : c \in Compounds } ELSE {})

Queries(c) ==
    IF c.kind = "unit" THEN
        { [kind |-> "scale", pa |-> pa, pb |-> pb] : pa \in Prefix, pb \in Prefix }
        \cup { [kind |-> "atom", p |-> p] : p \in Prefix }
        \cup { [kind |-> "xunit", pa |-> pa, pb |-> pb, u2 |-> u2] :
                   pa \in CrossPrefixes, pb \in CrossPrefixes, u2 \in Unit \ {c.u} }
        \cup { [kind |-> "xpow", pa |-> pa, pb |-> pb, k2 |-> k2] :
                   pa \in CrossPrefixes, pb \in CrossPrefixes,
                   k2 \in { k \in Power : k # c.k /\ {k, c.k} # {0, 1} } }
    ELSE
        \* a compound is recognised as such, and is never a scaled version of one of its own factors
        { [kind |-> "compound"] } \cup { [kind |-> "xcomp", i |-> i] : i \in 1..Len(c.c.atoms) }

Expected(c, qq) ==
    CASE qq.kind = "scale" ->
            [a |-> Str(qq.pa, c.u, c.k), b |-> Str(qq.pb, c.u, c.k),
             scalable |-> TRUE, exp10 |-> Scale10(qq.pa, qq.pb, c.k)]
      [] qq.kind = "atom" ->
            [s |-> Str(qq.p, c.u, c.k), prefix |-> qq.p, unit |-> c.u, power |-> PowStr(c.k),
             unambiguous |-> << qq.p, c.u >> \notin AmbiguousPU]
      [] qq.kind = "xunit" ->
            [a |-> Str(qq.pa, c.u, c.k), b |-> Str(qq.pb, qq.u2, c.k), scalable |-> FALSE]
      [] qq.kind = "xpow" ->
            [a |-> Str(qq.pa, c.u, c.k), b |-> Str(qq.pb, c.u, qq.k2), scalable |-> FALSE]
      [] qq.kind = "xcomp" ->
            [a |-> c.c.atoms[qq.i], b |-> CompoundStr(c.c), scalable |-> FALSE]
      [] qq.kind = "compound" ->
            [s |-> CompoundStr(c.c), n |-> Len(c.c.atoms), atoms |-> c.c.atoms, seps |-> c.c.seps]

Init == cfg \in Configs /\ q = Nil /\ r = Nil

Next == /\ q.kind = "nil"
        /\ \E qq \in Queries(cfg) : q' = qq /\ r' = Expected(cfg, qq)
        /\ UNCHANGED cfg

Spec == Init /\ [][Next]_vars

(***************************************************************************)
(* laws (checked by TLC on every vector)                                   *)
(***************************************************************************)
IsScale == q.kind = "scale"

\* a -> b -> c equals a -> c, for every third prefix
Composes == IsScale =>
    \A pc \in Prefix : Scale10(q.pa, q.pb, cfg.k) + Scale10(q.pb, pc, cfg.k) = Scale10(q.pa, pc, cfg.k)

Inverts == IsScale => Scale10(q.pa, q.pb, cfg.k) = - Scale10(q.pb, q.pa, cfg.k)

Reflexive == (IsScale /\ q.pa = q.pb) => r.exp10 = 0

\* the factor is the ratio of the prefixes raised to the unit's power
RatioToPower == IsScale => r.exp10 = (Exp(q.pa) - Exp(q.pb)) * PowVal(cfg.k)

\* a cross pair is never scalable, a same-unit-same-power pair always is
ScalableIffSame == (q.kind \in {"scale", "xunit", "xpow", "xcomp"}) =>
    (r.scalable <=> q.kind = "scale")

\* the table grammar has exactly one reading per atomic string
ASSUME GrammarUnambiguous == AmbiguousPU = {}

Export == PrintT(<<"TX", ToJson([cfg |-> cfg, q |-> q', r |-> r'])>>)
=============================================================================
