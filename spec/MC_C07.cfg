SPECIFICATION Spec
CONSTANTS
  G = 4
  Intervals = {1, 2, 3, 6}
  Offsets <- T_Offsets
  SampledPos <- T_SampledPos
  SampledRel = FALSE
  TickVals = {0, 1, 2, 3, 4, 5, 6, 7, 8}
  MaxTicks = 5
  RangePos <- T_RangePos
  LabelCounts = {0, 1, 2, 3, 4}
  SetPos <- T_SetPos
  BigI = 64
  Kinds = {"sampled", "range", "set"}
INVARIANT RoundTrip
INVARIANT ModeMeaning
INVARIANT DecompOK
INVARIANT Contiguous
INVARIANT ExclusiveSubset
INVARIANT BigEnough
ACTION_CONSTRAINT Export
CHECK_DEADLOCK FALSE
