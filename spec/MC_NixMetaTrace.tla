-------------------------- MODULE MC_NixMetaTrace --------------------------
EXTENDS NixMetaTrace
TraceNames == { "n1", "n2", "n3", "n4", "n5", "n6" }
NoCands == {}
NoAttrNames == {}
=============================================================================
