SPECIFICATION Spec
CONSTANTS
  InitShapes <- C15_Shapes
  MaxCells = 6
  AppendLens = {1}
  ResizeTo = {2}
  AssignExprs <- AE
  CoefSets <- C15_Coefs
  Origins <- C15_Origins
  MaxDepth = 4
  Ops = {"write", "assign", "calib"}
VIEW View
INVARIANT ShapeOK
PROPERTY RefusedUnchanged
PROPERTY CalibrationLeavesRaw
PROPERTY AppendPreserves
PROPERTY ResizePreserves
PROPERTY AssignFrame
ACTION_CONSTRAINT Export
CHECK_DEADLOCK FALSE
