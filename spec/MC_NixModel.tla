---------------------------- MODULE MC_NixModel ----------------------------
(* Constant definitions for the NixModel configurations.                   *)
EXTENDS NixModel

L(b, g, a, t, m, f, so, se, p) ==
    [block |-> b, group |-> g, array |-> a, tag |-> t, mtag |-> m, feature |-> f,
     source |-> so, section |-> se, property |-> p]

Limit_C03  == L(2, 1, 2, 1, 0, 0, 2, 2, 1)
Limit_C04  == L(2, 1, 2, 1, 1, 1, 2, 2, 1)
Limit_Sim  == L(3, 2, 3, 2, 2, 2, 3, 3, 2)
Limit_C13  == L(1, 0, 1, 0, 0, 0, 5, 5, 0)
Limit_C19  == L(1, 1, 1, 1, 1, 1, 1, 1, 1)

AllFaults == { "DuplicateName", "BadName", "NoneType", "WrongKind", "ForeignBlock", "NotMember", "Required", "NotFound" }
NoScript == << >>

Cr(k, p, n, new) == [name |-> "Create", kind |-> k, owner |-> p, n |-> n, t |-> 1, new |-> new, out |-> "ok"]

\* one block with everything linkable in it, nested sources and sections, a second block re-using the names
Script_Links == <<
    Cr("block", 0, "n1", 1), Cr("array", 1, "n1", 2), Cr("array", 1, "n2", 3), Cr("group", 1, "n1", 4),
    Cr("tag", 1, "n1", 5),
    [name |-> "CreateMTag", owner |-> 1, n |-> "n1", t |-> 1, pos |-> 2, ext |-> 3, new |-> 6, out |-> "ok"],
    Cr("source", 1, "n1", 7), Cr("source", 7, "n2", 8), Cr("section", 0, "n1", 9), Cr("section", 9, "n2", 10),
    [name |-> "CreateFeature", owner |-> 5, data |-> 3, t |-> 1, new |-> 11, out |-> "ok"],
    Cr("block", 0, "n2", 12), Cr("array", 12, "n1", 13), Cr("group", 12, "n1", 14) >>
Limit_Links == L(2, 2, 3, 1, 1, 1, 2, 2, 0)
=============================================================================
