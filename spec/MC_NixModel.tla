---------------------------- MODULE MC_NixModel ----------------------------
(* Constant definitions for the NixModel configurations.                   *)
EXTENDS NixModel

L(b, g, a, t, m, f, so, se, p) ==
    [block |-> b, group |-> g, array |-> a, tag |-> t, mtag |-> m, feature |-> f,
     source |-> so, section |-> se, property |-> p, frame |-> 0]
\* ... with data frames
LF(lim, fr) == [lim EXCEPT !.frame = fr]

Limit_C03  == LF(L(2, 1, 2, 1, 0, 0, 2, 2, 1), 1)
Limit_C04  == LF(L(2, 1, 2, 1, 1, 1, 2, 2, 1), 1)
Limit_Sim  == LF(L(3, 2, 3, 2, 2, 2, 3, 3, 2), 2)
Limit_C13  == L(1, 0, 1, 0, 0, 0, 5, 5, 0)
Limit_C19  == L(1, 1, 1, 1, 1, 1, 1, 1, 1)

AllFaults == { "DuplicateName", "BadName", "NoneType", "WrongKind", "ForeignBlock", "NotMember", "Required", "NotFound", "BadLinkType" }
NoScript == << >>

Cr(k, p, n, new) == [name |-> "Create", kind |-> k, owner |-> p, n |-> n, t |-> 1, new |-> new, out |-> "ok"]

\* one block with everything linkable in it, nested sources and sections, a second block re-using the names
Script_Links == <<
    Cr("block", 0, "n1", 1), Cr("array", 1, "n1", 2), Cr("array", 1, "n2", 3), Cr("group", 1, "n1", 4),
    Cr("tag", 1, "n1", 5),
    [name |-> "CreateMTag", owner |-> 1, n |-> "n1", t |-> 1, pos |-> 2, ext |-> 3, new |-> 6, out |-> "ok"],
    Cr("source", 1, "n1", 7), Cr("source", 7, "n2", 8), Cr("section", 0, "n1", 9), Cr("section", 9, "n2", 10),
    [name |-> "CreateFeature", owner |-> 5, data |-> 3, t |-> 1, new |-> 11, out |-> "ok"],
    Cr("block", 0, "n2", 12), Cr("array", 12, "n1", 13), Cr("group", 12, "n1", 14) >>
Limit_Links == L(2, 2, 3, 1, 1, 1, 2, 2, 0)

LA(o, l, x) == [name |-> "LinkAppend", o |-> o, l |-> l, x |-> x, out |-> "ok"]
\* link / unlink / link again on a small block (a link list that becomes empty in between)
Script_Small == << Cr("block", 0, "n1", 1), Cr("array", 1, "n1", 2), Cr("array", 1, "n2", 3), Cr("group", 1, "n1", 4),
                   Cr("tag", 1, "n1", 5), Cr("source", 1, "n1", 6) >>
Limit_Small == L(1, 1, 2, 1, 0, 0, 1, 0, 0)

\* names shadowed across levels of the source tree (n1 at the top, n1 below it, n1 below another root): by-name
\* operations on link lists must find the LINKED entity of that name, not a same-named entity elsewhere in the tree
Script_Shadow == << Cr("block", 0, "n1", 1), Cr("array", 1, "n1", 2), Cr("group", 1, "n1", 3), Cr("tag", 1, "n1", 4),
                    Cr("source", 1, "n1", 5), Cr("source", 5, "n1", 6), Cr("source", 1, "n2", 7), Cr("source", 7, "n1", 8) >>
Limit_Shadow == L(1, 1, 1, 1, 0, 0, 4, 0, 0)

\* ... with members already in the lists (extend() that names a member again before an item it has to refuse)
Script_Linked == Script_Small \o << LA(4, "data_arrays", 2), LA(5, "references", 3), LA(2, "sources", 6), LA(4, "tags", 5) >>

\* C20: a block with internal structure (group list, tag reference + feature, multi-tag with positions/extents,
\* nested sources linked from an array, a data frame listed in the group), a nested section with a property, a second (empty) block as destination
Script_Copy == <<
    Cr("block", 0, "n1", 1), Cr("array", 1, "n1", 2), Cr("array", 1, "n2", 3), Cr("group", 1, "n1", 4),
    Cr("tag", 1, "n1", 5),
    [name |-> "CreateMTag", owner |-> 1, n |-> "n1", t |-> 1, pos |-> 2, ext |-> 3, new |-> 6, out |-> "ok"],
    Cr("source", 1, "n1", 7), Cr("source", 7, "n2", 8),
    [name |-> "CreateFeature", owner |-> 5, data |-> 3, t |-> 1, new |-> 9, out |-> "ok"],
    LA(4, "data_arrays", 2), LA(5, "references", 3), LA(2, "sources", 8), LA(4, "tags", 5),
    Cr("section", 0, "n1", 10), Cr("section", 10, "n2", 11),
    [name |-> "CreateProperty", owner |-> 11, n |-> "n1", v |-> 1, new |-> 12, out |-> "ok"],
    Cr("block", 0, "n2", 13),
    Cr("frame", 1, "n2", 14), LA(4, "data_frames", 14) >>
Limit_Copy == LF(L(3, 2, 4, 2, 2, 2, 4, 4, 2), 2)
\* ... with an id-keeping duplicate of array n2 inside the block (two entities, one id), then every single call -
\* among them the fresh-id copy of the whole block, whose link lists must follow each member's own new id
Limit_CopyDup == LF(L(3, 2, 6, 2, 2, 2, 4, 4, 2), 2)
Script_CopyDup == Script_Copy \o <<
    [name |-> "Copy", kind |-> "array", src |-> 3, dest |-> 1, n |-> "n3", keep |-> TRUE, deep |-> TRUE, new |-> 15, out |-> "ok"],
    LA(4, "data_arrays", 15) >>
\* ... followed by a copy of the whole block (fresh ids) and of the section tree: every single mutation of either side
Script_Copied == Script_Copy \o <<
    [name |-> "Copy", kind |-> "block", src |-> 1, dest |-> 0, n |-> "n3", keep |-> FALSE, deep |-> TRUE, new |-> 15, out |-> "ok"],
    [name |-> "Copy", kind |-> "section", src |-> 10, dest |-> 0, n |-> "n2", keep |-> FALSE, deep |-> TRUE, new |-> 25, out |-> "ok"] >>
=============================================================================
