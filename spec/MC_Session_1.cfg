SPECIFICATION Spec
CONSTANTS
  NWrites = 1
  MaxDepth = 8
  MaxKills = 2
VIEW View
INVARIANT TypeOK
INVARIANT ReadOnlySeesDisk
PROPERTY ReadOnlyNeverChanges
PROPERTY KillAfterFlushLosesNothing
PROPERTY OpenShowsDisk
PROPERTY DiskMonotone
ACTION_CONSTRAINT Export
CHECK_DEADLOCK FALSE
