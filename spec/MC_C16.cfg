SPECIFICATION Spec
CONSTANTS
  Schemas <- SchT
  RowCounts = {0, 1, 3}
  NewCols <- NewT
  MaxRows = 4
  MaxCols = 7
  MaxDepth = 4
  Ops = {"append", "write", "units", "faults"}
VIEW View
INVARIANT ShapeMatches
PROPERTY RefusedUnchanged
PROPERTY CellFrame
PROPERTY AppendKeeps
PROPERTY TypesFixed
ACTION_CONSTRAINT Export
CHECK_DEADLOCK FALSE
