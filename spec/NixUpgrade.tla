----------------------------- MODULE NixUpgrade -----------------------------
(***************************************************************************)
(* The format upgrade tool (property C18): nixio.cmd.upgrade.              *)
(*                                                                         *)
(* File:    ver      "old" | "lib"      format version in the header       *)
(*          hasId    file id present                                       *)
(*          props    [P -> "compound" | "plain"]  metadata properties      *)
(*          dims     [D -> "alias" | "link"]      range dimensions that    *)
(*                                                refer to their own array *)
(* The content (values, units, definitions, ticks, labels ...) does not    *)
(* depend on the representation; the harness compares it before / after.   *)
(*                                                                         *)
(* Process: Collect inspects the CURRENT file and schedules only the       *)
(* needed steps - file id, one step per compound property, one per alias   *)
(* dimension - and the version bump LAST.  Every step re-opens the file;   *)
(* the process can be killed between any two steps (Crash): the task list  *)
(* is lost, the file stays as it is, and the tool is run again.            *)
(***************************************************************************)
EXTENDS Integers, Sequences, FiniteSets, TLC, Json

CONSTANTS P, D,            \* property and dimension identities of the file (sets of small integers)
          MaxCrashes, MaxDepth

VARIABLES ver, hasId, props, dims, phase, tasks, crashes, runs, file0, act, hist
vars == << ver, hasId, props, dims, phase, tasks, crashes, runs, file0, act, hist >>
View == << ver, hasId, props, dims, phase, tasks, crashes, file0 >>

RECURSIVE SetToSeq(_)
SetToSeq(S) == IF S = {} THEN << >> ELSE LET m == CHOOSE x \in S : \A y \in S : x <= y IN << m >> \o SetToSeq(S \ {m})

CanStep == Len(hist) < MaxDepth
Log(a) == act' = a /\ hist' = Append(hist, a)

\* what collect_tasks schedules for the file as it is now
Needed ==
    IF ver = "lib" THEN << >>
    ELSE (IF hasId THEN << >> ELSE << [t |-> "id"] >>)
         \o [i \in 1..Cardinality({ p \in P : props[p] = "compound" }) |->
                [t |-> "prop", x |-> SetToSeq({ p \in P : props[p] = "compound" })[i]]]
         \o [i \in 1..Cardinality({ d \in D : dims[d] = "alias" }) |->
                [t |-> "dim", x |-> SetToSeq({ d \in D : dims[d] = "alias" })[i]]]
         \o << [t |-> "bump"] >>

Collect == /\ CanStep /\ phase = "idle"
           /\ tasks' = Needed /\ phase' = "running" /\ runs' = runs + 1
           /\ Log([name |-> "Collect", n |-> Len(Needed)])
           /\ UNCHANGED << ver, hasId, props, dims, crashes, file0 >>

\* one step = one append-mode open of the file; each re-checks its own precondition (as built)
Step == /\ CanStep /\ phase = "running" /\ tasks # << >>
        /\ LET s == Head(tasks) IN
           /\ tasks' = Tail(tasks)
           /\ (CASE s.t = "id"   -> hasId' = TRUE /\ UNCHANGED << ver, props, dims >>
                 [] s.t = "prop" -> props' = [props EXCEPT ![s.x] = "plain"] /\ UNCHANGED << ver, hasId, dims >>
                 [] s.t = "dim"  -> dims' = [dims EXCEPT ![s.x] = "link"] /\ UNCHANGED << ver, hasId, props >>
                 [] s.t = "bump" -> ver' = "lib" /\ UNCHANGED << hasId, props, dims >>)
           /\ Log([name |-> "Step", s |-> s])
        /\ UNCHANGED << phase, crashes, runs, file0 >>

Finish == /\ CanStep /\ phase = "running" /\ tasks = << >>
          /\ phase' = "idle" /\ Log([name |-> "Finish"])
          /\ UNCHANGED << ver, hasId, props, dims, tasks, crashes, runs, file0 >>

\* the process dies between two steps (also before the first and after the last)
Crash == /\ CanStep /\ phase = "running" /\ crashes < MaxCrashes
         /\ phase' = "idle" /\ tasks' = << >> /\ crashes' = crashes + 1
         /\ Log([name |-> "Crash", remaining |-> Len(tasks)])
         /\ UNCHANGED << ver, hasId, props, dims, runs, file0 >>

Init == /\ ver = "old" /\ hasId \in BOOLEAN
        /\ props \in [P -> { "compound", "plain" }] /\ dims \in [D -> { "alias", "link" }]
        /\ phase = "idle" /\ tasks = << >> /\ crashes = 0 /\ runs = 0
        /\ file0 = [hasId |-> hasId, props |-> props, dims |-> dims]
        /\ act = [name |-> "Init"] /\ hist = << >>
Next == Collect \/ Step \/ Finish \/ Crash
Spec == Init /\ [][Next]_vars
FairSpec == Spec /\ WF_vars(Collect) /\ WF_vars(Step) /\ WF_vars(Finish)

(***************************************************************************)
(* properties                                                              *)
(***************************************************************************)
Converted == hasId /\ (\A p \in P : props[p] = "plain") /\ (\A d \in D : dims[d] = "link")

\* the version is raised only after every other conversion step has completed
VersionLast == ver = "lib" => Converted

\* a file interrupted while steps remain is still recognised as old
OldStillRecognised == [][(act'.name = "Crash" /\ act'.remaining > 0) => ver' = "old"]_vars

\* upgrading an up-to-date file schedules nothing (and therefore changes nothing)
Idempotent == ver = "lib" => Needed = << >>

\* conversions are never undone
Monotone == [][/\ (hasId => hasId')
               /\ \A p \in P : props[p] = "plain" => props'[p] = "plain"
               /\ \A d \in D : dims[d] = "link" => dims'[d] = "link"
               /\ (ver = "lib" => ver' = "lib")]_vars

\* every run schedules the bump last, and only steps that are still needed
PlanOK == [][act'.name = "Collect" =>
    LET n == Len(tasks') IN
    /\ (ver = "old" => (n >= 1 /\ tasks'[n].t = "bump"))
    /\ \A i \in 1..n : /\ tasks'[i].t = "bump" => i = n
                       /\ tasks'[i].t = "prop" => props[tasks'[i].x] = "compound"
                       /\ tasks'[i].t = "dim" => dims[tasks'[i].x] = "alias"
                       /\ tasks'[i].t = "id" => ~hasId]_vars

\* with finitely many crashes the upgrade completes (checked under FairSpec)
Completes == <>[](ver = "lib")

Export == PrintT(<<"TX", ToJson([hist |-> hist, act |-> act',
    init |-> file0,
    to |-> [ver |-> ver', hasId |-> hasId', props |-> props', dims |-> dims', phase |-> phase']])>>)
=============================================================================
