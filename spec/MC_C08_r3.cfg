SPECIFICATION TagSpec
CONSTANTS
  G = 4
  Intervals = {1}
  Offsets = {0}
  SampledPos = {0}
  SampledRel = FALSE
  TickVals = {0}
  MaxTicks = 1
  RangePos = {0}
  LabelCounts = {0}
  SetPos = {0}
  BigI = 64
  Kinds = {}
  TagDescs <- D3
  FreeExtents = {3}
  UnitCases <- U3
  Ranks = {3}
  Starts <- S3
  Exts <- E3
  ShortPositions = TRUE
INVARIANT ExactlyRegion
INVARIANT NoneMeansNone
INVARIANT ZeroIsPoint
INVARIANT RuleOnlyAtEnd
INVARIANT AgreesWithRangeIndices
INVARIANT BeyondIsWhole
ACTION_CONSTRAINT TagExport
CHECK_DEADLOCK FALSE
