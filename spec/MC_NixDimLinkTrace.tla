------------------------ MODULE MC_NixDimLinkTrace ------------------------
EXTENDS NixDimLinkTrace
TT == { "t1", "t2", "t3", "fr" }
TRanks == [t \in TT |-> CASE t = "t1" -> 1 [] t = "fr" -> 0 [] OTHER -> 2]
=============================================================================
