------------------------------ MODULE NixMeta -------------------------------
(***************************************************************************)
(* One metadata section with its properties and subsections (property      *)
(* C10; refused calls also serve C12).                                     *)
(*                                                                         *)
(*   props    sequence (creation order) of                                 *)
(*            [name, dtype, vals, attr]  - dtype is fixed at creation,     *)
(*            vals is a sequence of value tokens << type, k >>,            *)
(*            attr maps the optional attributes to a token (0 = None)      *)
(*   subs     sequence (creation order) of subsection names                *)
(*                                                                         *)
(* A candidate list is a sequence of value tokens; its type is defined iff *)
(* all tokens have the same type.  Which concrete Python / NumPy values a  *)
(* token stands for (True vs 1, 1 vs 1.0, NaN, "", non-ASCII ...) is the   *)
(* concretisation's business: the specification only says that tokens of   *)
(* different types never mix and that what is read is what was stored.     *)
(***************************************************************************)
EXTENDS Integers, Sequences, FiniteSets, TLC, Json

CONSTANTS
    Names,       \* names of properties and subsections
    Cands,       \* candidate value lists (sequences of tokens), homogeneous and mixed
    MaxLen,      \* bound on Len(vals)
    MaxDepth,
    AttrNames,   \* optional attributes that are driven
    AttrVals,    \* tokens for attribute values (0 = None is always included)
    Ops

Types == { "bool", "int", "float", "text" }
\* odML types by number (0 = not set): the harness maps them to nixio.OdmlType
OdmlNames == << "boolean", "int", "float", "string", "text", "url", "person", "datetime", "date", "time" >>
OdmlOf(t) == CASE t = "bool" -> { 1 } [] t = "int" -> { 2 } [] t = "float" -> { 3 } [] t = "text" -> 4..10
OdmlAll == 1..10

VARIABLES props, subs, act, hist
vars == << props, subs, act, hist >>
State == << props, subs >>
\* the view keeps one history per state AND per "the last call was refused": every call is also explored right after a
\* refused one (a refusal stutters, but what it leaves behind in the implementation's session would show next)
View == << State, act.out # "ok" >>

TypeOfList(c) == IF c = << >> THEN "none"
                 ELSE IF \A i \in 1..Len(c) : c[i][1] = c[1][1] THEN c[1][1] ELSE "mixed"

PIdx(n) == { i \in 1..Len(props) : props[i].name = n }
HasProp(n) == PIdx(n) # {}
IdxOf(n) == CHOOSE i \in PIdx(n) : TRUE
HasSub(n) == \E i \in 1..Len(subs) : subs[i] = n
NoAttr == [a \in AttrNames |-> 0]

CanStep == Len(hist) < MaxDepth
Log(a) == act' = a /\ hist' = Append(hist, a)
Refuse(a, why) == Log([a EXCEPT !.out = why]) /\ UNCHANGED << props, subs >>
RemoveAt(s, i) == [j \in 1..(Len(s) - 1) |-> IF j < i THEN s[j] ELSE s[j + 1]]

(***************************************************************************)
(* property-level calls                                                    *)
(***************************************************************************)
\* Section.create_property(name, values)
CreateProp(n, c, via) ==
    LET a == [name |-> "CreateProp", n |-> n, c |-> c, via |-> via, out |-> "ok"] IN
    /\ CanStep /\ c # << >>
    /\ IF HasProp(n) THEN (via = "method" /\ "faults" \in Ops /\ Refuse(a, "refused:DuplicateName"))
       ELSE IF TypeOfList(c) = "mixed" THEN "faults" \in Ops /\ Refuse(a, "refused:TypeError")
       ELSE /\ Len(c) <= MaxLen
            /\ props' = Append(props, [name |-> n, dtype |-> TypeOfList(c), vals |-> c, attr |-> NoAttr])
            /\ Log(a) /\ UNCHANGED subs

\* Section.create_property(name, DataType): an empty property of a given type
CreateTyped(n, t) ==
    LET a == [name |-> "CreateTyped", n |-> n, t |-> t, out |-> "ok"] IN
    /\ CanStep /\ ~HasProp(n)
    /\ props' = Append(props, [name |-> n, dtype |-> t, vals |-> << >>, attr |-> NoAttr])
    /\ Log(a) /\ UNCHANGED subs

\* neither values nor a type
CreateEmpty(n) ==
    /\ CanStep /\ ~HasProp(n) /\ "faults" \in Ops
    /\ Refuse([name |-> "CreateEmpty", n |-> n, out |-> "ok"], "refused:TypeError")

\* prop.values = list   (via "attr")   /   section[name] = list   (via "dict")
Assign(n, c, via) ==
    LET a == [name |-> "Assign", n |-> n, c |-> c, via |-> via, out |-> "ok"]
        i == IdxOf(n) IN
    /\ CanStep /\ HasProp(n) /\ c # << >>
    /\ IF TypeOfList(c) # props[i].dtype THEN "faults" \in Ops /\ Refuse(a, "refused:TypeError")
       ELSE /\ Len(c) <= MaxLen
            /\ props' = [props EXCEPT ![i].vals = c]
            /\ Log(a) /\ UNCHANGED subs

Extend(n, c) ==
    LET a == [name |-> "Extend", n |-> n, c |-> c, out |-> "ok"]
        i == IdxOf(n) IN
    /\ CanStep /\ HasProp(n) /\ c # << >>
    /\ IF TypeOfList(c) # props[i].dtype THEN "faults" \in Ops /\ Refuse(a, "refused:TypeError")
       ELSE /\ Len(props[i].vals) + Len(c) <= MaxLen
            /\ props' = [props EXCEPT ![i].vals = @ \o c]
            /\ Log(a) /\ UNCHANGED subs

\* delete_values(), values = None, values = []
Clear(n, how) ==
    /\ CanStep /\ HasProp(n) /\ props[IdxOf(n)].vals # << >>
    /\ props' = [props EXCEPT ![IdxOf(n)].vals = << >>]
    /\ Log([name |-> "Clear", n |-> n, how |-> how, out |-> "ok"]) /\ UNCHANGED subs

\* del section.props[name]  /  del section[name]
DeleteProp(n, via) ==
    LET a == [name |-> "DeleteProp", n |-> n, via |-> via, out |-> "ok"] IN
    /\ CanStep
    /\ IF HasProp(n) THEN props' = RemoveAt(props, IdxOf(n)) /\ Log(a) /\ UNCHANGED subs
       ELSE "faults" \in Ops /\ Refuse(a, "refused:KeyError")

SetAttr(n, at, v) ==
    /\ CanStep /\ HasProp(n) /\ props[IdxOf(n)].attr[at] # v
    /\ props' = [props EXCEPT ![IdxOf(n)].attr[at] = v]
    /\ Log([name |-> "SetAttr", n |-> n, a |-> at, v |-> v, out |-> "ok"]) /\ UNCHANGED subs

\* odml_type: only a type compatible with the stored values is accepted
SetOdml(n, ot) ==
    LET a == [name |-> "SetOdml", n |-> n, ot |-> ot, out |-> "ok"]
        i == IdxOf(n) IN
    /\ CanStep /\ HasProp(n) /\ props[i].vals # << >> /\ "odml" \in AttrNames
    /\ IF ot \in OdmlOf(props[i].dtype)
         THEN props' = [props EXCEPT ![i].attr["odml"] = ot] /\ Log(a) /\ UNCHANGED subs
         ELSE "faults" \in Ops /\ Refuse(a, "refused:TypeError")

(***************************************************************************)
(* subsections                                                             *)
(***************************************************************************)
CreateSub(n) ==
    LET a == [name |-> "CreateSub", n |-> n, out |-> "ok"] IN
    /\ CanStep
    /\ IF HasSub(n) THEN "faults" \in Ops /\ Refuse(a, "refused:DuplicateName")
       ELSE subs' = Append(subs, n) /\ Log(a) /\ UNCHANGED props

DeleteSub(n) ==
    /\ CanStep /\ HasSub(n)
    /\ subs' = SelectSeq(subs, LAMBDA x : x # n)
    /\ Log([name |-> "DeleteSub", n |-> n, out |-> "ok"]) /\ UNCHANGED props

Init == props = << >> /\ subs = << >> /\ act = [name |-> "Init", out |-> "ok"] /\ hist = << >>

Next ==
    \/ \E n \in Names, c \in Cands, via \in { "method", "dict" } : CreateProp(n, c, via)
    \/ \E n \in Names, t \in Types : CreateTyped(n, t)
    \/ \E n \in Names : CreateEmpty(n)
    \/ \E n \in Names, c \in Cands, via \in { "attr", "dict" } : Assign(n, c, via)
    \/ ("extend" \in Ops /\ \E n \in Names, c \in Cands : Extend(n, c))
    \/ \E n \in Names, how \in { "delete_values", "none", "emptylist" } : Clear(n, how)
    \/ \E n \in Names, via \in { "props", "dict" } : DeleteProp(n, via)
    \/ ("attrs" \in Ops /\ \E n \in Names, at \in AttrNames \ {"odml"}, v \in AttrVals \cup {0} : SetAttr(n, at, v))
    \/ ("attrs" \in Ops /\ \E n \in Names, ot \in OdmlAll : SetOdml(n, ot))
    \/ ("subs" \in Ops /\ \E n \in Names : CreateSub(n) \/ DeleteSub(n))

Spec == Init /\ [][Next]_vars

(***************************************************************************)
(* the section as a dictionary (observables, exported with every state)    *)
(***************************************************************************)
DictHas(ps, ss, k) == (\E i \in 1..Len(ps) : ps[i].name = k) \/ (\E i \in 1..Len(ss) : ss[i] = k)
DictGet(ps, ss, k) ==
    IF \E i \in 1..Len(ps) : ps[i].name = k
      THEN [what |-> "values", vals |-> ps[CHOOSE i \in 1..Len(ps) : ps[i].name = k].vals]
      ELSE IF \E i \in 1..Len(ss) : ss[i] = k THEN [what |-> "section"] ELSE [what |-> "KeyError"]
DictItems(ps, ss) == [i \in 1..Len(ps) |-> << "property", ps[i].name >>] \o [i \in 1..Len(ss) |-> << "section", ss[i] >>]
DictLen(ps) == Len(ps)                    \* as built: the number of properties

(***************************************************************************)
(* invariants and action properties                                        *)
(***************************************************************************)
TypeOK == /\ \A i \in 1..Len(props) : props[i].dtype \in Types /\ Len(props[i].vals) <= MaxLen
          /\ \A i, j \in 1..Len(props) : i # j => props[i].name # props[j].name
          /\ \A i, j \in 1..Len(subs) : i # j => subs[i] # subs[j]

\* every stored value has the property's type
Homogeneous == \A i \in 1..Len(props) : \A j \in 1..Len(props[i].vals) : props[i].vals[j][1] = props[i].dtype

\* dictionary view is consistent with the two lists
DictConsistent == \A k \in Names :
    /\ DictHas(props, subs, k) <=> (\E x \in 1..Len(DictItems(props, subs)) : DictItems(props, subs)[x][2] = k)
    /\ (DictGet(props, subs, k).what = "KeyError") <=> ~DictHas(props, subs, k)

IsAct(n) == act'.name = n
Refused == act'.out # "ok"
RefusedUnchanged == [][Refused => State' = State]_vars

\* the data type of a property never changes while it exists under that name at the same position
DtypeFixed == [][\A i \in 1..Len(props) : \A j \in 1..Len(props') :
    (props'[j].name = props[i].name /\ ~IsAct("DeleteProp")) => props'[j].dtype = props[i].dtype]_vars

\* appending adds the new values after the existing ones
ExtendIsConcat == [][(IsAct("Extend") /\ ~Refused) =>
    LET i == CHOOSE x \in 1..Len(props) : props[x].name = act'.n IN
    /\ props'[i].vals = props[i].vals \o act'.c
    /\ \A j \in 1..Len(props) : j # i => props'[j] = props[j]]_vars

\* a write to one property leaves every other property and the subsections alone
WriteFrame == [][(act'.name \in { "Assign", "Extend", "Clear", "SetAttr", "SetOdml" }) =>
    /\ subs' = subs /\ Len(props') = Len(props)
    /\ \A j \in 1..Len(props) : props[j].name # act'.n => props'[j] = props[j]]_vars

Export == PrintT(<<"TX", ToJson([hist |-> hist, act |-> act',
    from |-> [props |-> props, subs |-> subs],
    to |-> [props |-> props', subs |-> subs',
            dict |-> [items |-> DictItems(props', subs'), len |-> DictLen(props'),
                      get |-> [k \in Names |-> DictGet(props', subs', k)],
                      has |-> [k \in Names |-> DictHas(props', subs', k)]]]])>>)
=============================================================================
