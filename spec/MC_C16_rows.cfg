SPECIFICATION Spec
CONSTANTS
  Schemas <- SchR
  RowCounts = {8}
  NewCols <- NewQ
  MaxRows = 8
  MaxCols = 2
  MaxDepth = 2
  Ops = {"write"}
VIEW View
INVARIANT ShapeMatches
PROPERTY RefusedUnchanged
PROPERTY CellFrame
PROPERTY AppendKeeps
PROPERTY TypesFixed
ACTION_CONSTRAINT Export
CHECK_DEADLOCK FALSE
