SPECIFICATION Spec
CONSTANTS
  NWrites = 2
  MaxDepth = 10
  MaxKills = 2
VIEW View
INVARIANT TypeOK
INVARIANT ReadOnlySeesDisk
PROPERTY ReadOnlyNeverChanges
PROPERTY KillAfterFlushLosesNothing
PROPERTY OpenShowsDisk
PROPERTY DiskMonotone
ACTION_CONSTRAINT Export
CHECK_DEADLOCK FALSE
