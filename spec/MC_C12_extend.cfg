SPECIFICATION Spec
CONSTANTS
  Names = {"n1", "n2"}
  Vals = {1}
  MaxObj = 6
  MaxDepth = 11
  MaxClock = 1
  Limit <- Limit_Small
  Ops = {"create", "link", "extend"}
  Faults = {"WrongKind", "ForeignBlock"}
  Script <- Script_Linked
  CopyKeep = {}
VIEW View
INVARIANT TypeOK
INVARIANT NameUnique
INVARIANT EidUnique
INVARIANT NoDangling
INVARIANT LinkKindAndBlock
INVARIANT RoleKindOK
PROPERTY RefusedUnchanged
PROPERTY IdNameStable
PROPERTY NumbersNeverReused
PROPERTY DeleteFrame
PROPERTY UnlinkKeepsTarget
PROPERTY CreatedAtFixed
PROPERTY UpdatedMonotone
PROPERTY TimestampLocality
PROPERTY NoAutoNoChange
PROPERTY ListedAttrStamps
ACTION_CONSTRAINT Export
CHECK_DEADLOCK FALSE
