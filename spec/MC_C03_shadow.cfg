SPECIFICATION Spec
CONSTANTS
  Names = {"n1", "n2"}
  Vals = {1}
  MaxObj = 8
  MaxDepth = 10
  MaxClock = 1
  Limit <- Limit_Shadow
  Ops = {"create", "link"}
  Faults = {"NotMember"}
  Script <- Script_Shadow
  CopyKeep = {}
VIEW View
INVARIANT TypeOK
INVARIANT NameUnique
INVARIANT EidUnique
INVARIANT NoDangling
INVARIANT LinkKindAndBlock
INVARIANT RoleKindOK
PROPERTY RefusedUnchanged
PROPERTY IdNameStable
PROPERTY NumbersNeverReused
PROPERTY DeleteFrame
PROPERTY UnlinkKeepsTarget
PROPERTY CreatedAtFixed
PROPERTY UpdatedMonotone
PROPERTY TimestampLocality
PROPERTY NoAutoNoChange
PROPERTY ListedAttrStamps
ACTION_CONSTRAINT Export
CHECK_DEADLOCK FALSE
