---------------------------- MODULE MC_NixFrame ----------------------------
EXTENDS NixFrame
C(n, t) == [n |-> n, t |-> t]
SchQ == { << C("n1", "int64") >>,
          << C("n1", "text"), C("n2", "float64") >>,
          << C("n2", "bool"), C("n1", "int8"), C("n3", "text") >> }
SchT == SchQ \cup { << C("n3", "float64"), C("n1", "float64"), C("n2", "int64"), C("n4", "bool") >>,
                    << C("n1", "text"), C("n2", "text"), C("n3", "int8"), C("n4", "int64"), C("n5", "float64"), C("n6", "bool") >> }
SchR == { << C("n1", "int64"), C("n2", "text") >> }
NewQ == { C("n9", "int64"), C("n8", "text") }
NewT == { C("n9", "int64"), C("n8", "text"), C("n7", "float64"), C("n6x", "bool"), C("n5x", "int8") }
=============================================================================
