SPECIFICATION Spec
CONSTANTS
  Names = {"n1", "n2"}
  Vals = {1}
  MaxObj = 5
  MaxDepth = 5
  MaxClock = 1
  Limit <- Limit_C03
  Ops = {"create", "createfault", "delete"}
  Faults = {"DuplicateName", "BadName", "NotFound"}
  Script <- NoScript
  CopyKeep = {}
VIEW View
INVARIANT TypeOK
INVARIANT NameUnique
INVARIANT EidUnique
INVARIANT NoDangling
INVARIANT LinkKindAndBlock
INVARIANT RoleKindOK
PROPERTY RefusedUnchanged
PROPERTY IdNameStable
PROPERTY NumbersNeverReused
PROPERTY DeleteFrame
PROPERTY UnlinkKeepsTarget
PROPERTY CreatedAtFixed
PROPERTY UpdatedMonotone
PROPERTY TimestampLocality
PROPERTY NoAutoNoChange
PROPERTY ListedAttrStamps
ACTION_CONSTRAINT Export
CHECK_DEADLOCK FALSE
