------------------------------ MODULE NixFrame ------------------------------
(***************************************************************************)
(* One data frame: an ordered list of named, typed columns and a sequence  *)
(* of rows (property C16; refused calls also serve C12).                   *)
(*                                                                         *)
(*   cols    sequence of [n, t]  (column name, element type)               *)
(*   cells   sequence of rows; a row is a sequence of stamps               *)
(*           << write number, offset inside that write >>, one per column  *)
(*   units   sequence of unit tokens, one per column, or << >> (not set)   *)
(*                                                                         *)
(* Which value a stamp stands for in a column of a given type, the names,  *)
(* and whether a call goes through a long-lived or a fresh handle belong   *)
(* to the concretisation.                                                  *)
(***************************************************************************)
EXTENDS Integers, Sequences, FiniteSets, TLC, Json

CONSTANTS
    Schemas,      \* column schemas a frame can be created with (sequences of [n, t])
    RowCounts,    \* row counts at creation
    NewCols,      \* columns that may be appended ([n, t])
    MaxRows, MaxCols, MaxDepth,
    Ops

Variants == { "col_dict", "names_dtypes", "names_data", "structured" }
Inferable == { "text", "int64", "float64", "bool" }     \* types create(names + data) can infer from Python values

VARIABLES made, cols, cells, units, nw, act, hist
vars == << made, cols, cells, units, nw, act, hist >>
State == << made, cols, cells, units, nw >>
\* the view keeps one history per state AND per "the last call was refused": every call is also explored right after a
\* refused one (a refusal stutters, but what it leaves behind in the implementation's session would show next)
View == << State, act.out # "ok" >>

NC == Len(cols)
NR == Len(cells)
\* (a write with an index list that is not increasing is a leaf: the library may refuse it, so nothing is built on it;
\*  it is marked by nw = -1)
CanStep == Len(hist) < MaxDepth /\ nw >= 0
Log(a) == act' = a /\ hist' = Append(hist, a)
Refuse(a) == Log(a) /\ UNCHANGED << made, cols, cells, units, nw >>
ColNames == { cols[i].n : i \in 1..NC }
ColIdx(n) == CHOOSE i \in 1..NC : cols[i].n = n

Create(sch, nr, v) ==
    /\ ~made /\ CanStep
    /\ (v \in { "names_data", "structured" }) => nr > 0
    /\ (v = "names_data") => \A i \in 1..Len(sch) : sch[i].t \in Inferable
    /\ made' = TRUE /\ cols' = sch /\ units' = << >>
    /\ cells' = [r \in 1..nr |-> [c \in 1..Len(sch) |-> << 1, (r - 1) * Len(sch) + (c - 1) >>]]
    /\ nw' = 1
    /\ Log([name |-> "Create", schema |-> sch, rows |-> nr, via |-> v, out |-> "ok"])

CreateBad(kind) ==
    /\ ~made /\ CanStep /\ "faults" \in Ops
    /\ Refuse([name |-> "CreateBad", kind |-> kind, out |-> "refused"])

AppendRows(k) ==
    /\ made /\ CanStep /\ NR + k <= MaxRows
    /\ cells' = cells \o [i \in 1..k |-> [c \in 1..NC |-> << nw + 1, (i - 1) * NC + (c - 1) >>]]
    /\ nw' = nw + 1
    /\ Log([name |-> "AppendRows", k |-> k, out |-> "ok"]) /\ UNCHANGED << made, cols, units >>

AppendColumn(col, explicit) ==
    /\ made /\ CanStep /\ NC < MaxCols /\ col.n \notin ColNames
    /\ (~explicit) => (NR > 0 /\ col.t \in Inferable)
    /\ cols' = Append(cols, col)
    /\ cells' = [r \in 1..NR |-> Append(cells[r], << nw + 1, r - 1 >>)]
    /\ units' = IF units = << >> THEN << >> ELSE Append(units, 0)
    /\ nw' = nw + 1
    /\ Log([name |-> "AppendColumn", col |-> col, explicit |-> explicit, out |-> "ok"]) /\ UNCHANGED made

\* overwrite the rows with the given distinct indices, 0-based: the i-th given row goes to row idx[i].
\* An index list that is not increasing may be refused (the storage layer wants increasing selections) - but if it is
\* accepted the rows have to land where they were addressed
Increasing(idx) == \A i \in 1..(Len(idx) - 1) : idx[i] < idx[i + 1]
WriteRows(idx) ==
    /\ made /\ CanStep /\ Len(idx) >= 1 /\ \A i \in 1..Len(idx) : idx[i] < NR
    /\ \A i, j \in 1..Len(idx) : i # j => idx[i] # idx[j]
    /\ cells' = [r \in 1..NR |->
                    IF \E i \in 1..Len(idx) : idx[i] = r - 1
                      THEN LET i == CHOOSE j \in 1..Len(idx) : idx[j] = r - 1 IN
                           [c \in 1..NC |-> << nw + 1, (i - 1) * NC + (c - 1) >>]
                      ELSE cells[r]]
    /\ nw' = IF Increasing(idx) THEN nw + 1 ELSE -1
    /\ Log([name |-> "WriteRows", idx |-> idx, may_refuse |-> ~Increasing(idx), out |-> "ok"]) /\ UNCHANGED << made, cols, units >>

WriteColumn(c, by) ==
    /\ made /\ CanStep /\ c \in 1..NC
    /\ cells' = [r \in 1..NR |-> [cells[r] EXCEPT ![c] = << nw + 1, r - 1 >>]]
    /\ nw' = nw + 1
    /\ Log([name |-> "WriteColumn", c |-> c - 1, n |-> cols[c].n, by |-> by, out |-> "ok"]) /\ UNCHANGED << made, cols, units >>

WriteCell(r, c, by) ==
    /\ made /\ CanStep /\ r \in 1..NR /\ c \in 1..NC
    /\ cells' = [cells EXCEPT ![r][c] = << nw + 1, 0 >>]
    /\ nw' = nw + 1
    /\ Log([name |-> "WriteCell", r |-> r - 1, c |-> c - 1, n |-> cols[c].n, by |-> by, out |-> "ok"])
    /\ UNCHANGED << made, cols, units >>

SetUnits(u) ==
    /\ made /\ CanStep /\ Len(u) = NC /\ u # units
    /\ units' = u
    /\ Log([name |-> "SetUnits", u |-> u, out |-> "ok"]) /\ UNCHANGED << made, cols, cells, nw >>

\* refused writes: wrong length, unknown column, out-of-range row, duplicate column name, wrong row width
Bad(kind) ==
    /\ made /\ CanStep /\ "faults" \in Ops
    /\ (kind \in { "writecol_unknown_name", "writecell_unknown_col", "writecell_oob_row" }) => NR > 0
    /\ Refuse([name |-> "Bad", kind |-> kind, out |-> "refused"])

BadKinds == { "appendcol_short", "appendcol_long", "appendcol_dupname", "writerows_oob", "writerows_count",
              "writecol_short", "writecol_unknown_name", "writecol_unknown_index", "writecell_oob_row",
              "writecell_unknown_col", "appendrows_width" }
\* bad_cell: a row whose cell does not fit its column type (the frame must not exist afterwards)
CreateBadKinds == { "dup_colname", "no_names", "no_types", "bad_cell" }

RowIdxSets == { << i >> : i \in 0..(MaxRows - 1) } \cup { << i, j >> : i \in 0..(MaxRows - 1), j \in 0..(MaxRows - 1) }
              \cup { << 2, 0, 1 >>, << 1, 2, 0 >>, << 0, 2, 1 >>, << 0, 1, 2 >> }
              \* longer lists for tall frames: contiguous, evenly spaced, and irregular with a regular beginning and end
              \cup (IF MaxRows >= 8 THEN { << 0, 1, 2, 3 >>, << 0, 2, 4, 6 >>, << 0, 2, 3, 6 >>, << 1, 3, 4, 7 >>,
                                          << 0, 3, 4, 7 >>, << 1, 2, 4, 7 >>, << 0, 1, 3, 4, 6 >> } ELSE {})
\* a unit for every column, for none, and a mix (0 = no unit for that column)
UnitSeqs == { [i \in 1..NC |-> 0], [i \in 1..NC |-> 1], [i \in 1..NC |-> i % 3] }

Init == /\ made = FALSE /\ cols = << >> /\ cells = << >> /\ units = << >> /\ nw = 0
        /\ act = [name |-> "Init", out |-> "ok"] /\ hist = << >>

Next ==
    \/ \E s \in Schemas, nr \in RowCounts, v \in Variants : Create(s, nr, v)
    \/ \E k \in CreateBadKinds : CreateBad(k)
    \/ ("append" \in Ops /\ \E k \in { 1, 2 } : AppendRows(k))
    \/ ("append" \in Ops /\ \E col \in NewCols, e \in BOOLEAN : AppendColumn(col, e))
    \/ ("write" \in Ops /\ \E idx \in RowIdxSets : WriteRows(idx))
    \/ ("write" \in Ops /\ \E c \in 1..MaxCols, by \in { "index", "name" } : WriteColumn(c, by))
    \/ ("write" \in Ops /\ \E r \in 1..MaxRows, c \in 1..MaxCols, by \in { "position", "name" } : WriteCell(r, c, by))
    \/ ("units" \in Ops /\ made /\ \E u \in UnitSeqs : SetUnits(u))
    \/ \E k \in BadKinds : Bad(k)

Spec == Init /\ [][Next]_vars

(***************************************************************************)
(* invariants and action properties                                        *)
(***************************************************************************)
\* the reported shape always describes the stored table
ShapeMatches == made =>
    /\ \A r \in 1..NR : Len(cells[r]) = NC
    /\ units = << >> \/ Len(units) = NC
    /\ \A i, j \in 1..NC : i # j => cols[i].n # cols[j].n

IsAct(n) == act'.name = n
Refused == act'.out # "ok"
RefusedUnchanged == [][Refused => State' = State]_vars

\* a write changes only the addressed cells
CellFrame == [][(~Refused /\ act'.name \in { "WriteRows", "WriteColumn", "WriteCell" }) =>
    /\ cols' = cols /\ Len(cells') = Len(cells)
    /\ \A r \in 1..NR : \A c \in 1..NC :
          cells'[r][c] # cells[r][c] =>
             CASE IsAct("WriteRows")   -> \E i \in 1..Len(act'.idx) : act'.idx[i] = r - 1
               [] IsAct("WriteColumn") -> act'.c = c - 1
               [] IsAct("WriteCell")   -> act'.r = r - 1 /\ act'.c = c - 1]_vars

\* appending keeps everything that was there, in place
AppendKeeps == [][(~Refused /\ act'.name \in { "AppendRows", "AppendColumn" }) =>
    /\ \A i \in 1..NC : cols'[i] = cols[i]
    /\ \A r \in 1..NR : \A c \in 1..NC : cells'[r][c] = cells[r][c]]_vars

\* column types never change
TypesFixed == [][made => \A i \in 1..NC : cols'[i] = cols[i]]_vars

Export == PrintT(<<"TX", ToJson([hist |-> hist, act |-> act',
    from |-> [made |-> made, cols |-> cols, cells |-> cells, units |-> units],
    to |-> [made |-> made', cols |-> cols', cells |-> cells', units |-> units']])>>)
=============================================================================
