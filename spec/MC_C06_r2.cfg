SPECIFICATION Spec
CONSTANTS
  Shapes <- T_Shapes2
  WinStarts = {0, 1, 2}
  WinExtents = {0, 1, 2, 3}
  IntVals <- T2_Ints
  SliceVals <- T2_Slice
  StepVals = {1, 2}
  MaxExprs = 0
INVARIANT InSpace
INVARIANT InWindow
INVARIANT ErrorOnlyFromInts
INVARIANT WholeWindow
INVARIANT Composition
ACTION_CONSTRAINT Export
CHECK_DEADLOCK FALSE
