SPECIFICATION Spec
CONSTANTS
  Shapes <- Q_Shapes3
  WinStarts = {0, 1}
  WinExtents = {1, 2}
  IntVals <- Q3_Ints
  SliceVals <- Q3_Slice
  StepVals = {2}
  MaxExprs = 1
INVARIANT InSpace
INVARIANT InWindow
INVARIANT ErrorOnlyFromInts
INVARIANT WholeWindow
INVARIANT Composition
ACTION_CONSTRAINT Export
CHECK_DEADLOCK FALSE
