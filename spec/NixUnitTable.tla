---------------------------- MODULE NixUnitTable ----------------------------
(***************************************************************************)
(* The SI tables nixio.util.units is built on, as constant operators:      *)
(* prefixes are powers of ten, so scaling between two scalable units is    *)
(* modelled by its decimal exponent.  Shared by NixUnits (C09), NixTagging *)
(* (C08) and NixValidate (C14).                                            *)
(***************************************************************************)
EXTENDS Integers, Sequences

PrefixSeq == << "", "Y", "Z", "E", "P", "T", "G", "M", "k", "h", "da",
                "d", "c", "m", "u", "n", "p", "f", "a", "z", "y" >>
Prefix == { PrefixSeq[i] : i \in 1..Len(PrefixSeq) }

Exp(p) == CASE p = ""   -> 0
            [] p = "Y"  -> 24  [] p = "Z" -> 21  [] p = "E" -> 18
            [] p = "P"  -> 15  [] p = "T" -> 12  [] p = "G" -> 9
            [] p = "M"  -> 6   [] p = "k" -> 3   [] p = "h" -> 2
            [] p = "da" -> 1   [] p = "d" -> -1  [] p = "c" -> -2
            [] p = "m"  -> -3  [] p = "u" -> -6  [] p = "n" -> -9
            [] p = "p"  -> -12 [] p = "f" -> -15 [] p = "a" -> -18
            [] p = "z"  -> -21 [] p = "y" -> -24

Unit == { "m", "g", "s", "A", "K", "mol", "cd", "Hz", "N", "Pa", "J", "W",
          "C", "V", "F", "S", "Wb", "T", "H", "lm", "lx", "Bq", "Gy", "Sv",
          "kat", "l", "L", "Ohm", "%", "dB", "rad" }

\* power 0 stands for "no power written"; an explicit "^1" is a different
\* spelling of the same power (the pair none / ^1 is left open, DESIGN C09)
Power == -3..3
PowVal(k) == IF k = 0 THEN 1 ELSE k

Digits == << "0", "1", "2", "3", "4", "5", "6", "7", "8", "9" >>
NatStr(n) == Digits[n + 1]                       \* 0..9 is all we need
IntStr(k) == IF k < 0 THEN "-" \o NatStr(-k) ELSE NatStr(k)
PowStr(k) == IF k = 0 THEN "" ELSE IntStr(k)     \* what split() must return
Str(p, u, k) == p \o u \o (IF k = 0 THEN "" ELSE "^" \o IntStr(k))

Scalable(ua, ka, ub, kb) == ua = ub /\ ka = kb
Scale10(pa, pb, k) == (Exp(pa) - Exp(pb)) * PowVal(k)

=============================================================================
