---------------------------- MODULE MC_NixDimLink ----------------------------
EXTENDS NixDimLink
T2 == { "t1", "t2" }
Ranks == [t \in T2 |-> IF t = "t1" THEN 1 ELSE 2]
\* ... and with a data frame as a link target
T3 == { "t1", "fr" }
RanksF == [t \in T3 |-> IF t = "t1" THEN 1 ELSE 0]
=============================================================================
