SPECIFICATION Spec
CONSTANTS
  DimMixes1 <- Mix1
  DimMixes2 <- Mix2q
  Refs = {"a1", "a2"}
  MaxInject = 2
INVARIANT WellFormedClean
INVARIANT SingleDetected
INVARIANT Locality
INVARIANT ArrayLeak
ACTION_CONSTRAINT Export
CHECK_DEADLOCK FALSE
