SPECIFICATION Spec
CONSTANTS
  G = 1024
  Intervals = {2}
  Offsets <- B_Offsets
  SampledPos <- B_SampledPos
  SampledRel = TRUE
  TickVals = {0}
  MaxTicks = 1
  RangePos = {0}
  LabelCounts = {0}
  SetPos = {0}
  BigI = 64
  Kinds = {"sampled"}
INVARIANT RoundTrip
INVARIANT ModeMeaning
INVARIANT DecompOK
INVARIANT Contiguous
INVARIANT ExclusiveSubset
INVARIANT BigEnough
ACTION_CONSTRAINT Export
CHECK_DEADLOCK FALSE
