SPECIFICATION Spec
CONSTANTS
  Lib <- LibVer
  Versions <- Grid
  Formats = {"nix", "other", "missing"}
  Ids = {"valid", "invalid", "missing"}
INVARIANT WritableImpliesReadable
INVARIANT OverwriteEmpties
INVARIANT OthersKeep
INVARIANT CreateOnlyIfMissing
INVARIANT MinorMonotone
INVARIANT ForeignRefused
ACTION_CONSTRAINT Export
CHECK_DEADLOCK FALSE
