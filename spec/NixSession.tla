----------------------------- MODULE NixSession -----------------------------
(***************************************************************************)
(* Sessions on one file: open read-write / read-only, write, flush, close, *)
(* process kill (properties C11 read-only part, C17; reopen of C02).       *)
(*                                                                         *)
(* The content of the file is abstracted to "how many of the writes of a   *)
(* given history have been applied": the harness binds write number i to   *)
(* the i-th call of a NixModel history exported by TLC, and the last write *)
(* (number NWrites + 1) to that transition's action, so the state after    *)
(* all writes is a state of NixModel.                                      *)
(*                                                                         *)
(*   mode   closed | rw | ro | dead (killed with unflushed writes: nothing *)
(*          is promised afterwards, the behaviour ends)                    *)
(*   mem    writes applied as the open session sees them                   *)
(*   disk   writes that are durable (as of the last flush / close)         *)
(*   extra  1 while the writing process holds a SECOND File object on the  *)
(*          same path (opened read-write while the first is open); later   *)
(*          writes go through it.  flush()/close() of a File object is     *)
(*          promised to make durable what was written THROUGH THAT OBJECT  *)
(*          (libhdf5 keeps raw-data caches per open object): closing the   *)
(*          first object while the second has unflushed writes (dirty2)    *)
(*          promises nothing about those - a named deviation from "closing *)
(*          any object flushes everything", which the code does not do     *)
(***************************************************************************)
EXTENDS Integers, Sequences, TLC, Json

CONSTANTS NWrites,     \* the history has NWrites calls; write NWrites+1 is the transition's own action
          MaxDepth,
          MaxKills

VARIABLES mode, mem, disk, kills, tried, extra, dirty2, via, act, hist
vars == << mode, mem, disk, kills, tried, extra, dirty2, via, act, hist >>
\* (via: which call made the current content durable - kept in the view so that a kill is explored after each of them)
View == << mode, mem, disk, kills, tried, extra, dirty2, via >>

Total == NWrites + 1
CanStep == Len(hist) < MaxDepth
Log(a) == act' = a /\ hist' = Append(hist, a)

Open(m) == /\ CanStep /\ mode = "closed"
           /\ mode' = m /\ mem' = disk
           /\ Log([name |-> "Open", m |-> m]) /\ UNCHANGED << disk, kills, tried, extra, dirty2 >> /\ via' = "none"

\* a second File object on the same path in the writing process; later writes go through it
OpenSecond == /\ CanStep /\ mode = "rw" /\ extra = 0 /\ mem < Total
              /\ extra' = 1
              /\ Log([name |-> "OpenSecond"]) /\ UNCHANGED << mode, mem, disk, kills, tried, via, dirty2 >>

\* close() of the older of the two File objects: the session goes on through the other one
CloseFirst == /\ CanStep /\ mode = "rw" /\ extra = 1
              /\ extra' = 0 /\ dirty2' = FALSE
              /\ disk' = IF dirty2 THEN disk ELSE mem
              /\ via' = "closefirst"
              /\ Log([name |-> "CloseFirst"]) /\ UNCHANGED << mode, mem, kills, tried >>

\* the next call of the history, in a writable session
Write == /\ CanStep /\ mode = "rw" /\ mem < Total
         /\ mem' = mem + 1
         /\ Log([name |-> "Write", i |-> mem + 1]) /\ UNCHANGED << mode, disk, kills, tried, extra >> /\ via' = "none"
         /\ dirty2' = (extra = 1)

\* (with two File objects, Flush stands for flush() of both)
\* the same call attempted in a read-only session: refused, nothing changes
\* (attempted with the transition's own action, whose effect on the state is known)
Attempt == /\ CanStep /\ mode = "ro" /\ mem = NWrites /\ ~tried
           /\ tried' = TRUE
           /\ Log([name |-> "Attempt", i |-> mem + 1]) /\ UNCHANGED << mode, mem, disk, kills, extra, via, dirty2 >>

Flush == /\ CanStep /\ mode = "rw" /\ disk # mem
         /\ disk' = mem
         /\ via' = "flush" /\ dirty2' = FALSE
         /\ Log([name |-> "Flush"]) /\ UNCHANGED << mode, mem, kills, tried, extra >>

Close == /\ CanStep /\ mode \in { "rw", "ro" } /\ extra = 0
         /\ mode' = "closed" /\ disk' = mem
         /\ Log([name |-> "Close"]) /\ UNCHANGED << mem, kills, tried, extra, via, dirty2 >>

\* SIGKILL of the process that holds the file
Kill == /\ CanStep /\ mode \in { "rw", "ro" } /\ kills < MaxKills
        /\ kills' = kills + 1
        /\ mode' = IF mem = disk THEN "closed" ELSE "dead"
        /\ extra' = 0 /\ dirty2' = FALSE
        /\ Log([name |-> "Kill", clean |-> (mem = disk)]) /\ UNCHANGED << mem, disk, tried, via >>

Init == mode = "closed" /\ mem = 0 /\ disk = 0 /\ kills = 0 /\ tried = FALSE /\ extra = 0 /\ dirty2 = FALSE /\ via = "none"
        /\ act = [name |-> "Init"] /\ hist = << >>
Next == Open("rw") \/ Open("ro") \/ Write \/ Attempt \/ Flush \/ Close \/ Kill \/ OpenSecond \/ CloseFirst
Spec == Init /\ [][Next]_vars

(***************************************************************************)
(* properties                                                              *)
(***************************************************************************)
TypeOK == /\ mode \in { "closed", "rw", "ro", "dead" } /\ mem \in 0..Total /\ disk \in 0..Total /\ disk <= mem
          /\ extra \in 0..1 /\ (extra = 1 => mode = "rw") /\ dirty2 \in BOOLEAN /\ (dirty2 => extra = 1)

\* C11: a read-only session never changes what is on disk, and sees what is on disk
ReadOnlyNeverChanges == [][mode = "ro" => disk' = disk]_vars
ReadOnlySeesDisk == mode = "ro" => mem = disk

\* C17: a kill right after flush() / close() returned loses nothing; what a later session sees is
\* exactly the state at that moment
KillAfterFlushLosesNothing == [][(act'.name = "Kill" /\ mem = disk) => (mode' = "closed" /\ disk' = mem)]_vars
\* close() of a File object makes durable everything written so far, unless another object holds unflushed writes
CloseMakesDurable == [][(act'.name = "Close" \/ (act'.name = "CloseFirst" /\ ~dirty2)) => disk' = mem]_vars
\* C02: opening shows what was there when the file was closed (or last flushed before a clean kill)
OpenShowsDisk == [][act'.name = "Open" => mem' = disk]_vars
\* durable content only ever grows with flush / close
DiskMonotone == [][disk' >= disk]_vars

Export == PrintT(<<"TX", ToJson([hist |-> hist, act |-> act', n |-> NWrites,
                                 to |-> [mode |-> mode', mem |-> mem', disk |-> disk']])>>)
=============================================================================
