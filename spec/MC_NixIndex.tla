---------------------------- MODULE MC_NixIndex ----------------------------
EXTENDS NixIndex
Q_Shapes1 == { <<0>>, <<1>>, <<3>>, <<4>> }
Q_Ints    == { -5, -4, -1, 0, 1, 3, 4 }
Q_Slice   == { -5, -2, -1, 0, 1, 2, 4, 6 }
Q_Shapes2 == { <<2, 3>>, <<3, 1>>, <<0, 2>> }
Q2_Ints   == { -3, -1, 2 }
Q2_Slice  == { -4, -1, 1, 3 }
Q_Shapes3 == { <<2, 1, 3>> }
Q_Shapes4 == { <<2, 1, 2, 2>> }
Q3_Ints   == { -1, 0, 2 }
Q3_Slice  == { -1, 1 }

\* ints (negative too) on both sides of an ellipsis that stands for 0, 1 or 2 axes; all axes of different length
E_Shapes  == { <<2, 3, 4, 5>>, <<4, 3, 2>> }
E_Ints    == { -1, 1 }
NoVals    == {}

T_Shapes1 == { <<0>>, <<1>>, <<2>>, <<3>>, <<4>>, <<5>> }
T_Ints    == -7..7
T_Slice   == -7..7
T_Shapes2 == { <<2, 3>>, <<3, 1>>, <<0, 2>>, <<3, 3>>, <<1, 4>>, <<4, 2>> }
T2_Ints   == { -4, -3, -1, 0, 1, 2, 3 }
T2_Slice  == { -5, -4, -2, -1, 0, 1, 2, 3, 5 }
=============================================================================
