SPECIFICATION Spec
CONSTANTS
  Shapes <- Q_Shapes1
  WinStarts = {0, 1, 3}
  WinExtents = {0, 1, 2, 4}
  IntVals <- Q_Ints
  SliceVals <- Q_Slice
  StepVals = {1, 2, 3}
  MaxExprs = 0
INVARIANT InSpace
INVARIANT InWindow
INVARIANT ErrorOnlyFromInts
INVARIANT WholeWindow
INVARIANT Composition
ACTION_CONSTRAINT Export
CHECK_DEADLOCK FALSE
