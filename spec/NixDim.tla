------------------------------- MODULE NixDim -------------------------------
(***************************************************************************)
(* Dimension descriptors of a data array (property C07; used by NixTagging *)
(* for C08).  All coordinates are integers on a grid of 1/G (the harness   *)
(* divides by G), so every value is exact in binary floating point.        *)
(*                                                                         *)
(*   sampled [iv, off]  sample i >= 0 lies at off + i*iv   (unbounded)     *)
(*   range   [ticks]    sample i lies at ticks[i+1], ticks non-decreasing  *)
(*   set     [n]        sample i lies at i (= G*i on the grid);            *)
(*                      n = 0 labels means unbounded                       *)
(*                                                                         *)
(* Everything is defined declaratively from "the set of samples whose      *)
(* coordinate satisfies ...": IndexOf is a Max / Min of such a set,        *)
(* RangeIndices its (Min, Max).                                            *)
(*                                                                         *)
(* Function-like module: Init = descriptors, Next = queries; every         *)
(* terminal state is one test vector.                                      *)
(***************************************************************************)
EXTENDS Integers, Sequences, FiniteSets, TLC, Json

CONSTANTS
    G,               \* grid: coordinates are multiples of 1/G
    Intervals,       \* sampling intervals (grid units, > 0)
    Offsets,         \* offsets (grid units)
    SampledPos,      \* positions queried on sampled descriptors
    SampledRel,      \* TRUE: SampledPos is relative to the descriptor's offset
    TickVals,        \* values ticks are drawn from
    MaxTicks,        \* tick vectors have length 1..MaxTicks
    RangePos,        \* positions queried on range descriptors
    LabelCounts,     \* label counts of set descriptors (0 = unbounded)
    SetPos,          \* positions queried on set descriptors
    BigI,            \* index bound standing in for "unbounded"
    Kinds            \* descriptor kinds produced by this configuration

Nil == [kind |-> "nil"]
Modes == { "leq", "less", "geq" }
SliceModes == { "inclusive", "exclusive" }

Max(S) == CHOOSE x \in S : \A y \in S : y <= x
Min(S) == CHOOSE x \in S : \A y \in S : x <= y

NonDecreasing(n) == { t \in [1..n -> TickVals] : \A i \in 1..(n - 1) : t[i] <= t[i + 1] }
TickVectors == UNION { NonDecreasing(n) : n \in 1..MaxTicks }

Descriptors ==
    (IF "sampled" \in Kinds THEN { [kind |-> "sampled", iv |-> iv, off |-> off] : iv \in Intervals, off \in Offsets } ELSE {})
    \cup (IF "range" \in Kinds THEN { [kind |-> "range", ticks |-> t] : t \in TickVectors } ELSE {})
    \cup (IF "set" \in Kinds THEN { [kind |-> "set", n |-> n] : n \in LabelCounts } ELSE {})

Bounded(d) == d.kind = "range" \/ (d.kind = "set" /\ d.n > 0)
Count(d)   == IF d.kind = "range" THEN Len(d.ticks) ELSE d.n          \* only if Bounded(d)
Idx(d)     == IF Bounded(d) THEN 0..(Count(d) - 1) ELSE 0..BigI

Coord(d, i) == CASE d.kind = "sampled" -> d.off + i * d.iv
                 [] d.kind = "range"   -> d.ticks[i + 1]
                 [] d.kind = "set"     -> G * i

Holds(mode, c, p) == CASE mode = "leq"  -> c <= p
                       [] mode = "less" -> c < p
                       [] mode = "geq"  -> c >= p

NoSuch == -1000
IndexOf(d, p, mode) ==
    LET S == { i \in Idx(d) : Holds(mode, Coord(d, i), p) }
    IN  IF S = {} THEN NoSuch ELSE IF mode = "geq" THEN Min(S) ELSE Max(S)

InRegion(c, a, b, sm) == a <= c /\ (IF sm = "inclusive" THEN c <= b ELSE c < b)
Sel(d, a, b, sm) == { i \in Idx(d) : InRegion(Coord(d, i), a, b, sm) }
Empty == << >>
RangeIndices(d, a, b, sm) ==
    LET S == Sel(d, a, b, sm) IN IF S = {} THEN Empty ELSE << Min(S), Max(S) >>

\* the decomposition the implementation uses: first sample at or after a,
\* last sample at or before / strictly before b
Decomposed(d, a, b, sm) ==
    LET s == IndexOf(d, a, "geq")
        e == IndexOf(d, b, IF sm = "inclusive" THEN "leq" ELSE "less")
    IN  IF s = NoSuch \/ e = NoSuch \/ s > e THEN Empty ELSE << s, e >>

Positions(d) == CASE d.kind = "sampled" -> (IF SampledRel THEN { d.off + x : x \in SampledPos } ELSE SampledPos)
                  [] d.kind = "range"   -> RangePos
                  [] d.kind = "set"     -> SetPos

AxisCounts == 0..3
AxisStarts == 0..2

Queries(d) ==
    { [kind |-> "index_of", p |-> p, mode |-> m] : p \in Positions(d), m \in Modes }
    \cup { [kind |-> "range_indices", a |-> ab[1], b |-> ab[2], sm |-> sm] :
               ab \in { x \in Positions(d) \X Positions(d) : x[1] <= x[2] }, sm \in SliceModes }
    \cup (IF d.kind = "set" THEN {} ELSE
            { [kind |-> "coord_at", i |-> i] : i \in (IF Bounded(d) THEN Idx(d) ELSE 0..5) })
    \cup (IF d.kind = "set" THEN {} ELSE
            { [kind |-> "axis", count |-> cs[1], start |-> cs[2]] :
                  cs \in { x \in AxisCounts \X AxisStarts : ~Bounded(d) \/ x[1] + x[2] <= Count(d) } })

Expected(d, qq) ==
    CASE qq.kind = "index_of"      -> [idx |-> IndexOf(d, qq.p, qq.mode)]
      [] qq.kind = "range_indices" -> [rng |-> RangeIndices(d, qq.a, qq.b, qq.sm)]
      [] qq.kind = "coord_at"      -> [c |-> Coord(d, qq.i)]
      [] qq.kind = "axis"          -> [axis |-> [j \in 1..qq.count |-> Coord(d, qq.start + j - 1)]]

VARIABLES cfg, q, r
vars == << cfg, q, r >>

Init == cfg \in Descriptors /\ q = Nil /\ r = Nil
Next == /\ q.kind = "nil"
        /\ \E qq \in Queries(cfg) : q' = qq /\ r' = Expected(cfg, qq)
        /\ UNCHANGED cfg
Spec == Init /\ [][Next]_vars

(***************************************************************************)
(* laws                                                                    *)
(***************************************************************************)
Strict(d) == d.kind # "range" \/ \A i \in 1..(Len(d.ticks) - 1) : d.ticks[i] < d.ticks[i + 1]

\* converting the position of sample i back yields i (a sample with the same
\* coordinate when ticks repeat); "less" yields the sample before, or none
RoundTrip == q.kind = "coord_at" =>
    LET i == q.i  c == r.c
        le == IndexOf(cfg, c, "leq")  ge == IndexOf(cfg, c, "geq")  lt == IndexOf(cfg, c, "less")
    IN  /\ le # NoSuch /\ ge # NoSuch
        /\ Coord(cfg, le) = c /\ Coord(cfg, ge) = c
        /\ ge <= i /\ i <= le
        /\ Strict(cfg) => (le = i /\ ge = i /\ lt = (IF i = 0 THEN NoSuch ELSE i - 1))
        /\ lt # NoSuch => Coord(cfg, lt) < c

\* whatever index comes back satisfies the mode's order relation and is extremal
ModeMeaning == q.kind = "index_of" =>
    LET i == r.idx IN
      IF i = NoSuch
        THEN \A j \in Idx(cfg) : ~Holds(q.mode, Coord(cfg, j), q.p)
        ELSE /\ Holds(q.mode, Coord(cfg, i), q.p)
             /\ \A j \in Idx(cfg) : Holds(q.mode, Coord(cfg, j), q.p) =>
                    (IF q.mode = "geq" THEN i <= j ELSE j <= i)

\* the interval query is exactly the decomposition into two index_of calls
DecompOK == q.kind = "range_indices" => r.rng = Decomposed(cfg, q.a, q.b, q.sm)

\* coordinates ascend, hence the selected samples are a contiguous run
Contiguous == q.kind = "range_indices" =>
    (r.rng # Empty => \A i \in r.rng[1]..r.rng[2] : i \in Sel(cfg, q.a, q.b, q.sm))

\* inclusive and exclusive differ at most by samples lying exactly at b
ExclusiveSubset == q.kind = "range_indices" =>
    Sel(cfg, q.a, q.b, "inclusive") \ Sel(cfg, q.a, q.b, "exclusive") = { i \in Idx(cfg) : Coord(cfg, i) = q.b /\ q.a <= q.b }

\* BigI really is "unbounded" for the queried positions
BigEnough == (~Bounded(cfg) /\ q.kind = "index_of" /\ r.idx # NoSuch) => r.idx < BigI

Export == PrintT(<<"TX", ToJson([g |-> G, cfg |-> cfg, q |-> q', r |-> r'])>>)
=============================================================================
