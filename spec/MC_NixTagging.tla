--------------------------- MODULE MC_NixTagging ---------------------------
EXTENDS NixTagging

Sam(iv, off) == [kind |-> "sampled", iv |-> iv, off |-> off]
Rng(t) == [kind |-> "range", ticks |-> t]
SetD(n) == [kind |-> "set", n |-> n]
UC(tp, tu, dp, du) == [tp |-> tp, tu |-> tu, dp |-> dp, du |-> du]

\* rank 1: many descriptors, all unit cases
D1 == { Sam(iv, off) : iv \in {1, 2, 3}, off \in {-3, 0, 2} }
      \cup { Rng(<<0>>), Rng(<<1, 3>>), Rng(<<0, 2, 5>>), Rng(<<1, 1, 4>>), Rng(<<0, 1, 2, 6>>), Rng(<<2, 2, 2>>),
             Rng(<<3, 4, 5, 6, 7>>) }
      \cup { SetD(0), SetD(2), SetD(4) }
D1q == { Sam(2, 0), Sam(3, -3), Sam(1, 2), Rng(<<1, 3>>), Rng(<<0, 2, 5>>), Rng(<<1, 1, 4>>), SetD(0), SetD(4) }
U1 == { UC("", "", "", ""), UC("", "", "m", "s"), UC("m", "s", "", ""), UC("m", "s", "m", "s"), UC("m", "s", "", "s"),
        UC("u", "s", "m", "s"), UC("", "s", "m", "s"), UC("k", "s", "m", "s"), UC("m", "V", "m", "s"), UC("m", "V", "k", "V") }
S1 == [kind \in {"sampled", "range", "set"} |->
         CASE kind = "sampled" -> {-5, -3, -2, 0, 1, 2, 3, 4, 6, 7, 8, 12, 13, 20}
           [] kind = "range"   -> -1..8
           [] kind = "set"     -> {-4, 0, 2, 4, 5, 8, 12, 16}]
E1 == {0, 1, 2, 4, 8}

\* rank 2: fewer descriptors, every mix of kinds
D2 == { Sam(2, 0), Sam(3, -3), Rng(<<0, 2, 5>>), Rng(<<1, 1, 4>>), SetD(3), SetD(0) }
U2 == { UC("", "", "", ""), UC("m", "s", "", "s"), UC("u", "s", "m", "s") }
S2 == [kind \in {"sampled", "range", "set"} |->
         CASE kind = "sampled" -> {-3, 0, 3, 4, 9}
           [] kind = "range"   -> {-1, 1, 2, 4, 6}
           [] kind = "set"     -> {-4, 0, 4, 6, 12}]
E2 == {0, 3}
D2q == { Sam(2, 0), Rng(<<1, 1, 4>>), SetD(3) }

\* rank 3: one descriptor of each kind in every order, positions of length 3 and 2
D3 == { Sam(2, 0), Rng(<<1, 1, 4>>), SetD(3) }
U3 == { UC("", "", "", ""), UC("u", "s", "m", "s") }
S3 == [kind \in {"sampled", "range", "set"} |->
         CASE kind = "sampled" -> {0, 3, 9}
           [] kind = "range"   -> {-1, 1, 6}
           [] kind = "set"     -> {0, 4, 12}]
S3q == [kind \in {"sampled", "range", "set"} |->
         CASE kind = "sampled" -> {3, 9}
           [] kind = "range"   -> {1, 6}
           [] kind = "set"     -> {4, 12}]
E3 == {0, 3}
=============================================================================
