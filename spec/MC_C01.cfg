SPECIFICATION Spec
CONSTANTS
  InitShapes <- T_Shapes
  MaxCells = 16
  AppendLens = {1, 2}
  ResizeTo = {0, 1, 2, 3}
  AssignExprs <- AE
  CoefSets <- NoCoefs
  Origins <- NoOrigins
  MaxDepth = 4
  Ops = {"write", "assign", "append", "resize", "faults"}
VIEW View
INVARIANT ShapeOK
PROPERTY RefusedUnchanged
PROPERTY CalibrationLeavesRaw
PROPERTY AppendPreserves
PROPERTY ResizePreserves
PROPERTY AssignFrame
ACTION_CONSTRAINT Export
CHECK_DEADLOCK FALSE
