----------------------------- MODULE MC_NixMeta -----------------------------
EXTENDS NixMeta
T(t, k) == << t, k >>
\* homogeneous lists of every type (length 1..3) and the mixed pairs that matter: bool/int, int/float, text/number,
\* in both orders, and a mixed list whose first two elements agree
Homog == UNION { { << T(t, 1) >>, << T(t, 2), T(t, 1) >>, << T(t, 1), T(t, 1), T(t, 2) >> } : t \in Types }
Mixed == { << T("bool", 1), T("int", 1) >>, << T("int", 1), T("bool", 1) >>, << T("int", 1), T("float", 1) >>,
           << T("float", 2), T("int", 2) >>, << T("text", 1), T("int", 1) >>, << T("int", 2), T("text", 2) >>,
           << T("float", 1), T("float", 2), T("text", 1) >>, << T("bool", 2), T("float", 1) >> }
CandsAll == Homog \cup Mixed
CandsQ == { c \in Homog : Len(c) <= 2 } \cup Mixed
AttrsAll == { "unit", "definition", "uncertainty", "reference", "dependency", "dependency_value", "value_origin", "odml" }
NoAttrs == {}
=============================================================================
