-------------------------- MODULE NixDimLinkTrace --------------------------
(***************************************************************************)
(* Binding B for NixDimLink: executions RECORDED from the real library are *)
(* checked against the specification.  A seeded random driver works on the *)
(* dimension descriptors of one array and on their link targets over a     *)
(* larger universe than TLC enumerates (four targets - a vector, two       *)
(* matrices, a data frame -, four descriptors, three value tokens, long    *)
(* histories, refused calls with probability 1/4) and logs one line per    *)
(* call after it returned or raised: the call with its arguments, the      *)
(* outcome class, what every descriptor REPORTS (in the specification's    *)
(* own tokens, recovered by the inverse concretisation) and the targets.   *)
(* Every line must be explained by the NixDimLink action the call maps to, *)
(* with the logged arguments, leading to a state whose report is exactly   *)
(* the logged one.  Arguments are logged, so there is no branching; the    *)
(* traces of a run are concatenated (a reset event starts each one).       *)
(***************************************************************************)
EXTENDS NixDimLink, IOUtils

TraceLog == ndJsonDeserialize(IOEnv.TRACE_FILE)

VARIABLE l
tvars == << targets, dims, act, hist, l >>

Ev == TraceLog[l]

ToSeq(f) == [i \in 1..Len(f) |-> f[i]]

Explains(e) ==
    LET a == e.act IN
    CASE a.call = "reset"        -> /\ targets' = [t \in Targets |-> [rank |-> RankOf[t], data |-> 1,
                                                     unit |-> IF IsFrame(t) THEN << 0, 0 >> ELSE 0, label |-> 0]]
                                    /\ dims' = << >> /\ act' = [name |-> "Init", out |-> "ok"] /\ hist' = << >>
      [] a.call = "append"       -> AppendDim(a.k)
      [] a.call = "append_bad"   -> AppendDimBad(<< a.k, a.why >>)
      [] a.call = "set_own"      -> SetOwn(a.i, a.v)
      [] a.call = "set_unordered" -> SetTicksUnordered(a.i)
      [] a.call = "set_attr"     -> SetAttr(a.i, a.f, a.v)
      [] a.call = "link"         -> Link(a.i, a.t, ToSeq(a.idx))
      [] a.call = "unlink"       -> Unlink(a.i)
      [] a.call = "write_target" -> WriteTarget(a.t, a.f, a.v)
      [] a.call = "delete_dims"  -> DeleteDims

\* the logged report (JSON lists are sequences; idx / unit tuples included)
SameReport(r, lg) ==
    /\ Len(r) = Len(lg)
    /\ \A i \in 1..Len(r) :
         /\ r[i].k = lg[i].k /\ r[i].linked = lg[i].linked
         /\ r[i].unit = lg[i].unit /\ r[i].label = lg[i].label
         /\ ToSeq(r[i].idx) = ToSeq(lg[i].idx)
         /\ r[i].values.src = lg[i].values.src
         /\ IF r[i].values.src = "own" THEN r[i].values.tok = lg[i].values.tok
            ELSE /\ r[i].values.t = lg[i].values.t /\ r[i].values.data = lg[i].values.data
                 /\ ToSeq(r[i].values.idx) = ToSeq(lg[i].values.idx)
SameTargets(tg, lg) ==
    \A t \in Targets : /\ tg[t].data = lg[t].data /\ tg[t].label = lg[t].label
                       /\ IF IsFrame(t) THEN ToSeq(tg[t].unit) = ToSeq(lg[t].unit) ELSE tg[t].unit = lg[t].unit

TraceInit == Init /\ l = 1
TraceNext == /\ l <= Len(TraceLog)
             /\ l' = l + 1
             /\ Explains(Ev)
             /\ SameReport(Report(targets', dims'), Ev.report)      \* what the descriptors report, completely
             /\ SameTargets(targets', Ev.targets)
             /\ (act'.out = "ok") <=> (Ev.act.out = "ok")           \* and the logged outcome class
TraceSpec == TraceInit /\ [][TraceNext]_tvars

TraceAccepted ==
    LET d == TLCGet("stats").diameter IN
    IF d - 1 = Len(TraceLog) THEN TRUE
    ELSE Print(<< "TRACE-REJECTED-AT-LINE", d, "of", Len(TraceLog) >>, FALSE)
=============================================================================
