SPECIFICATION Spec
CONSTANTS
  Names = {"n1"}
  Cands <- CandsQ
  MaxLen = 2
  MaxDepth = 3
  AttrNames <- AttrsAll
  AttrVals = {1, 2}
  Ops = {"attrs", "faults"}
VIEW View
INVARIANT TypeOK
INVARIANT Homogeneous
INVARIANT DictConsistent
PROPERTY RefusedUnchanged
PROPERTY DtypeFixed
PROPERTY ExtendIsConcat
PROPERTY WriteFrame
ACTION_CONSTRAINT Export
CHECK_DEADLOCK FALSE
