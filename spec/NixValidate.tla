---------------------------- MODULE NixValidate -----------------------------
(***************************************************************************)
(* The validator's catalogue of inconsistencies (property C14) over an     *)
(* abstract file:                                                          *)
(*                                                                         *)
(*   arrays  a1 (rank 1), a2 (rank 2), every data dimension 3 long;        *)
(*           dims = sequence of descriptors                                *)
(*             [kind, ticks, labels, interval, unit]                       *)
(*             ticks    "ok" | "short" | "none" | "unsorted"    (range)    *)
(*             labels   "ok" | "short" | "none"                 (set)      *)
(*             interval "pos" | "none" | "neg"                  (sampled)  *)
(*             unit     "none" | "s" | "V" | "compound" | "nonsi"          *)
(*   tag     [ref, poslen, extlen (-1 = no extent), units]                 *)
(*   mtag    [ref, posdim, extdim (-1 = none), extrows ("same"|"other"),   *)
(*            units]    units: sequence of unit classes, "" = empty entry  *)
(*   ents    generic entities (block, group, source, section, and the      *)
(*           four above) with flags hasType, hasName                       *)
(*                                                                         *)
(* A file is a well-formed base with zero, one or two injected             *)
(* inconsistencies.  Expected(file) is the set of << object, class >>      *)
(* pairs validation must report - for exactly the objects that have the    *)
(* inconsistency and for no others.                                        *)
(*                                                                         *)
(* Function-like module: Init = files, Next = validate.                    *)
(***************************************************************************)
EXTENDS Integers, Sequences, FiniteSets, TLC, Json

CONSTANTS
    DimMixes1,     \* descriptor kinds of a1 (sequences of length 1)
    DimMixes2,     \* descriptor kinds of a2 (sequences of length 2)
    Refs,          \* which array tag and multi-tag reference: subset of { "a1", "a2" }
    MaxInject      \* 0, 1 or 2 injections per file

Nil == [kind |-> "nil"]
Ents == { "block", "group", "source", "section", "a1", "a2", "tag", "mtag" }
RankOf(a) == IF a = "a1" THEN 1 ELSE 2

\* ---------------------------------------------------------------- well-formed base
GoodDim(k) == [kind |-> k, ticks |-> "ok", labels |-> "ok", interval |-> "pos",
               unit |-> IF k = "set" THEN "none" ELSE "s"]
GoodArray(mix) == [dims |-> [i \in 1..Len(mix) |-> GoodDim(mix[i])]]
\* a consistent tag carries one unit entry per referenced dimension: the dimension's unit, "" for set dimensions
UnitsFor(arr) == [i \in 1..Len(arr.dims) |-> IF arr.dims[i].kind = "set" THEN "" ELSE arr.dims[i].unit]
Base(m1, m2, ref) ==
    LET a1 == GoodArray(m1)
        a2 == GoodArray(m2)
        ra == IF ref = "a1" THEN a1 ELSE a2 IN
    [a1 |-> a1, a2 |-> a2,
     tag  |-> [ref |-> ref, poslen |-> RankOf(ref), extlen |-> RankOf(ref), units |-> UnitsFor(ra)],
     mtag |-> [ref |-> ref, posdim |-> RankOf(ref), extdim |-> RankOf(ref), extrows |-> "same", units |-> UnitsFor(ra)],
     flags |-> [e \in Ents |-> [hasType |-> TRUE, hasName |-> TRUE]]]

\* ---------------------------------------------------------------- injections
\* [obj, what, d]  (d = dimension index where it applies, else 0)
DimInj == { "ticks_short", "ticks_none", "ticks_unsorted", "labels_short", "interval_none", "interval_neg",
            "unit_nonsi", "unit_compound" }
ArrInj == { "dim_missing", "dim_surplus" }
TagInj == { "no_position", "pos_short", "pos_long", "ext_short", "ext_long", "units_short", "units_long",
            "units_unconvertible", "unit_nonsi" }
MTagInj == { "pos_short", "pos_long", "ext_dim_short", "ext_rows", "units_short", "units_long",
             "units_unconvertible", "unit_nonsi" }
EntInj == { "no_type", "no_name" }

Applies(f, inj) ==
    CASE inj.obj \in { "a1", "a2" } /\ inj.what \in DimInj ->
            LET ds == f[inj.obj].dims IN
            /\ inj.d \in 1..Len(ds)
            /\ (CASE inj.what \in { "ticks_short", "ticks_none", "ticks_unsorted" } -> ds[inj.d].kind = "range"
                  [] inj.what = "labels_short" -> ds[inj.d].kind = "set"
                  [] inj.what \in { "interval_none", "interval_neg" } -> ds[inj.d].kind = "sampled"
                  [] OTHER -> ds[inj.d].kind # "set")
      [] inj.obj \in { "a1", "a2" } /\ inj.what \in ArrInj -> inj.d = 0 /\ Len(f[inj.obj].dims) = RankOf(inj.obj)
      [] inj.obj = "tag" /\ inj.what \in TagInj -> inj.d = 0 /\
            (inj.what \in { "units_unconvertible", "unit_nonsi" } => \E i \in 1..Len(f.tag.units) : f.tag.units[i] # "") /\
            (inj.what = "ext_short" => f.tag.extlen >= 2) /\ (inj.what = "units_short" => Len(f.tag.units) >= 1) /\
            (inj.what \in { "no_position", "pos_short" } => f.tag.poslen >= 1)
      [] inj.obj = "mtag" /\ inj.what \in MTagInj -> inj.d = 0 /\
            (inj.what \in { "units_unconvertible", "unit_nonsi" } => \E i \in 1..Len(f.mtag.units) : f.mtag.units[i] # "") /\
            (inj.what = "ext_dim_short" => f.mtag.extdim >= 2) /\ (inj.what = "pos_short" => f.mtag.posdim >= 2) /\
            (inj.what = "units_short" => Len(f.mtag.units) >= 1)
      [] inj.what \in EntInj -> inj.d = 0 /\ inj.obj \in Ents
      [] OTHER -> FALSE

FirstUnit(us) == CHOOSE i \in 1..Len(us) : us[i] # "" /\ \A j \in 1..(i - 1) : us[j] = ""
Shorter(s) == SubSeq(s, 1, Len(s) - 1)

Apply(f, inj) ==
    CASE inj.obj \in { "a1", "a2" } /\ inj.what \in DimInj ->
            LET d == f[inj.obj].dims[inj.d]
                nd == CASE inj.what = "ticks_short" -> [d EXCEPT !.ticks = "short"]
                        [] inj.what = "ticks_none" -> [d EXCEPT !.ticks = "none"]
                        [] inj.what = "ticks_unsorted" -> [d EXCEPT !.ticks = "unsorted"]
                        [] inj.what = "labels_short" -> [d EXCEPT !.labels = "short"]
                        [] inj.what = "interval_none" -> [d EXCEPT !.interval = "none"]
                        [] inj.what = "interval_neg" -> [d EXCEPT !.interval = "neg"]
                        [] inj.what = "unit_nonsi" -> [d EXCEPT !.unit = "nonsi"]
                        [] inj.what = "unit_compound" -> [d EXCEPT !.unit = "compound"]
            IN [f EXCEPT ![inj.obj].dims[inj.d] = nd]
      [] inj.obj \in { "a1", "a2" } /\ inj.what = "dim_missing" -> [f EXCEPT ![inj.obj].dims = Shorter(@)]
      [] inj.obj \in { "a1", "a2" } /\ inj.what = "dim_surplus" -> [f EXCEPT ![inj.obj].dims = Append(@, GoodDim("set"))]
      [] inj.obj = "tag" ->
           (CASE inj.what = "no_position" -> [f EXCEPT !.tag.poslen = 0]
              [] inj.what = "pos_short" -> [f EXCEPT !.tag.poslen = @ - 1]
              [] inj.what = "pos_long" -> [f EXCEPT !.tag.poslen = @ + 1]
              [] inj.what = "ext_short" -> [f EXCEPT !.tag.extlen = @ - 1]
              [] inj.what = "ext_long" -> [f EXCEPT !.tag.extlen = @ + 1]
              [] inj.what = "units_short" -> [f EXCEPT !.tag.units = Shorter(@)]
              [] inj.what = "units_long" -> [f EXCEPT !.tag.units = Append(@, "")]
              [] inj.what = "units_unconvertible" -> [f EXCEPT !.tag.units[FirstUnit(f.tag.units)] = "V"]
              [] inj.what = "unit_nonsi" -> [f EXCEPT !.tag.units[FirstUnit(f.tag.units)] = "nonsi"]
              [] inj.what = "no_type" -> [f EXCEPT !.flags["tag"].hasType = FALSE]
              [] inj.what = "no_name" -> [f EXCEPT !.flags["tag"].hasName = FALSE])
      [] inj.obj = "mtag" ->
           (CASE inj.what = "pos_short" -> [f EXCEPT !.mtag.posdim = @ - 1]
              [] inj.what = "pos_long" -> [f EXCEPT !.mtag.posdim = @ + 1]
              [] inj.what = "ext_dim_short" -> [f EXCEPT !.mtag.extdim = @ - 1]
              [] inj.what = "ext_rows" -> [f EXCEPT !.mtag.extrows = "other"]
              [] inj.what = "units_short" -> [f EXCEPT !.mtag.units = Shorter(@)]
              [] inj.what = "units_long" -> [f EXCEPT !.mtag.units = Append(@, "")]
              [] inj.what = "units_unconvertible" -> [f EXCEPT !.mtag.units[FirstUnit(f.mtag.units)] = "V"]
              [] inj.what = "unit_nonsi" -> [f EXCEPT !.mtag.units[FirstUnit(f.mtag.units)] = "nonsi"]
              [] inj.what = "no_type" -> [f EXCEPT !.flags["mtag"].hasType = FALSE]
              [] inj.what = "no_name" -> [f EXCEPT !.flags["mtag"].hasName = FALSE])
      [] inj.what = "no_type" -> [f EXCEPT !.flags[inj.obj].hasType = FALSE]
      [] inj.what = "no_name" -> [f EXCEPT !.flags[inj.obj].hasName = FALSE]

AllInj == { [obj |-> o, what |-> w, d |-> d] :
              o \in Ents, w \in DimInj \cup ArrInj \cup TagInj \cup MTagInj \cup EntInj, d \in 0..2 }

Bases == { [file |-> Base(m1, m2, ref), m1 |-> m1, m2 |-> m2, ref |-> ref] : m1 \in DimMixes1, m2 \in DimMixes2, ref \in Refs }

\* ---------------------------------------------------------------- what validation must report
Atomic(u) == u \in { "s", "V" }
IsSI(u) == u \in { "s", "V", "compound" }
Scalable(a, b) == Atomic(a) /\ a = b            \* same unit (any prefixes); compound and non-SI units are never scalable
MinI(a, b) == IF a < b THEN a ELSE b

DimErrors(arr, a) ==
    LET rk == RankOf(a)
        n == MinI(Len(arr.dims), rk) IN
    (IF Len(arr.dims) # rk THEN { "DimensionMismatch" } ELSE {}) \cup
    UNION { LET d == arr.dims[i] IN
            CASE d.kind = "range" ->
                   (IF d.ticks \in { "short", "none" } THEN { "RangeDimTicksMismatch" } ELSE {}) \cup
                   (IF d.ticks = "none" THEN { "NoTicks" } ELSE {}) \cup
                   (IF d.ticks = "unsorted" THEN { "UnsortedTicks" } ELSE {}) \cup
                   (IF d.unit \notin { "none" } /\ ~Atomic(d.unit) THEN { "InvalidDimensionUnit" } ELSE {})
              [] d.kind = "sampled" ->
                   (IF d.interval = "none" THEN { "NoSamplingInterval" } ELSE {}) \cup
                   (IF d.interval = "neg" THEN { "InvalidSamplingInterval" } ELSE {}) \cup
                   (IF d.unit \notin { "none" } /\ ~Atomic(d.unit) THEN { "InvalidDimensionUnit" } ELSE {})
              [] d.kind = "set" ->
                   (IF d.labels = "short" THEN { "SetDimLabelsMismatch" } ELSE {})
          : i \in 1..n }

RefUnits(arr) == [i \in 1..Len(arr.dims) |-> IF arr.dims[i].kind = "set" \/ arr.dims[i].unit = "none" THEN "" ELSE arr.dims[i].unit]
UnitsIncompatible(tu, ru) == \E i \in 1..MinI(Len(tu), Len(ru)) : ~(tu[i] = "" /\ ru[i] = "") /\ ~Scalable(tu[i], ru[i])

TagErrors(f) ==
    LET t == f.tag
        rk == RankOf(t.ref)
        ru == RefUnits(f[t.ref]) IN
    (IF t.poslen = 0 THEN { "NoPosition" } ELSE {}) \cup
    (IF t.poslen # rk THEN { "PositionDimensionMismatch" } ELSE {}) \cup
    (IF t.extlen > 0 /\ t.extlen # t.poslen THEN { "PositionExtentMismatch" } ELSE {}) \cup
    (IF t.extlen > 0 /\ t.extlen # rk THEN { "ExtentDimensionMismatch" } ELSE {}) \cup
    (IF Len(ru) # Len(t.units) THEN { "ReferenceUnitsMismatch" } ELSE {}) \cup
    (IF UnitsIncompatible(t.units, ru) THEN { "ReferenceUnitsIncompatible" } ELSE {}) \cup
    (IF \E i \in 1..Len(t.units) : t.units[i] # "" /\ ~IsSI(t.units[i]) THEN { "InvalidUnit" } ELSE {})

MTagErrors(f) ==
    LET t == f.mtag
        rk == RankOf(t.ref)
        ru == RefUnits(f[t.ref]) IN
    (IF t.posdim # rk THEN { "PositionsDimensionMismatch" } ELSE {}) \cup
    (IF t.extdim > 0 /\ (t.extdim # t.posdim \/ t.extrows = "other") THEN { "PositionsExtentsMismatch" } ELSE {}) \cup
    (IF t.extdim > 0 /\ t.extdim # rk THEN { "ExtentsDimensionMismatch" } ELSE {}) \cup
    (IF Len(ru) # Len(t.units) THEN { "ReferenceUnitsMismatch" } ELSE {}) \cup
    (IF UnitsIncompatible(t.units, ru) THEN { "ReferenceUnitsIncompatible" } ELSE {}) \cup
    (IF \E i \in 1..Len(t.units) : t.units[i] # "" /\ ~IsSI(t.units[i]) THEN { "InvalidUnit" } ELSE {})

EntErrors(f, e) == (IF ~f.flags[e].hasType THEN { "NoType" } ELSE {}) \cup (IF ~f.flags[e].hasName THEN { "NoName" } ELSE {})

Expected(f) ==
    [e \in Ents |-> EntErrors(f, e) \cup
        (CASE e \in { "a1", "a2" } -> DimErrors(f[e], e)
           [] e = "tag" -> TagErrors(f)
           [] e = "mtag" -> MTagErrors(f)
           [] OTHER -> {})]

\* ---------------------------------------------------------------- state machine: inject, then validate
VARIABLES cfg, q, r
vars == << cfg, q, r >>

\* (the harness builds the well-formed base first and then applies the injections to the open file, one after
\* the other, validating after each: base names the descriptor kinds and the referenced array)
Init == cfg \in { [file |-> b.file, inj |-> << >>, base |-> [m1 |-> b.m1, m2 |-> b.m2, ref |-> b.ref]] : b \in Bases }
        /\ q = Nil /\ r = Nil

Distinct(injs, i) == \A k \in 1..Len(injs) : << injs[k].obj, injs[k].d, injs[k].what >> # << i.obj, i.d, i.what >>
Inject == /\ q.kind = "nil" /\ Len(cfg.inj) < MaxInject
          /\ \E i \in AllInj : /\ Applies(cfg.file, i) /\ Distinct(cfg.inj, i)
                               /\ cfg' = [cfg EXCEPT !.file = Apply(cfg.file, i), !.inj = Append(cfg.inj, i)]
          /\ UNCHANGED << q, r >>
Validate == /\ q.kind = "nil"
            /\ q' = [kind |-> "validate"] /\ r' = Expected(cfg.file)
            /\ UNCHANGED cfg
Next == Inject \/ Validate
Spec == Init /\ [][Next]_vars

\* ---------------------------------------------------------------- laws
Done == q.kind = "validate"
Errs(e) == r[e]

\* a consistent file has no errors
WellFormedClean == (Done /\ cfg.inj = << >>) => \A e \in Ents : Errs(e) = {}

\* what an injection is about
Class(i) ==
    CASE i.what = "ticks_short" -> "RangeDimTicksMismatch" [] i.what = "ticks_none" -> "NoTicks"
      [] i.what = "ticks_unsorted" -> "UnsortedTicks" [] i.what = "labels_short" -> "SetDimLabelsMismatch"
      [] i.what = "interval_none" -> "NoSamplingInterval" [] i.what = "interval_neg" -> "InvalidSamplingInterval"
      [] i.what \in { "unit_compound" } -> "InvalidDimensionUnit"
      [] i.what = "unit_nonsi" -> (IF i.obj \in { "a1", "a2" } THEN "InvalidDimensionUnit" ELSE "InvalidUnit")
      [] i.what \in { "dim_missing", "dim_surplus" } -> "DimensionMismatch"
      [] i.what = "no_position" -> "NoPosition"
      [] i.what \in { "pos_short", "pos_long" } -> (IF i.obj = "tag" THEN "PositionDimensionMismatch" ELSE "PositionsDimensionMismatch")
      [] i.what \in { "ext_short", "ext_long" } -> "PositionExtentMismatch"
      [] i.what \in { "ext_dim_short", "ext_rows" } -> "PositionsExtentsMismatch"
      [] i.what \in { "units_short", "units_long" } -> "ReferenceUnitsMismatch"
      [] i.what = "units_unconvertible" -> "ReferenceUnitsIncompatible"
      [] i.what = "no_type" -> "NoType" [] i.what = "no_name" -> "NoName"

\* a single injected inconsistency is reported at the object that has it ...
SingleDetected == (Done /\ Len(cfg.inj) = 1) => Class(cfg.inj[1]) \in Errs(cfg.inj[1].obj)
\* ... and nothing is reported for objects that neither have it nor refer to the object that has it
Referrers(f, o) == { x \in { "tag", "mtag" } : f[x].ref = o }
Locality == Done => \A e \in Ents :
    Errs(e) # {} => \E k \in 1..Len(cfg.inj) : e = cfg.inj[k].obj \/ e \in Referrers(cfg.file, cfg.inj[k].obj)
\* an array's own descriptor problems never leak into its tags unless the number or unit of descriptors changed
ArrayLeak == (Done /\ Len(cfg.inj) = 1 /\ cfg.inj[1].obj \in { "a1", "a2" } /\
              cfg.inj[1].what \notin { "dim_missing", "dim_surplus", "unit_nonsi", "unit_compound" }) =>
                 (Errs("tag") = {} /\ Errs("mtag") = {})

Export == (q'.kind = "validate") => PrintT(<<"TX", ToJson([cfg |-> cfg, q |-> q', r |-> [e \in Ents |-> r'[e]]])>>)
=============================================================================
