SPECIFICATION Spec
CONSTANTS
  Names = {"n1", "n2"}
  Vals = {1}
  MaxObj = 14
  MaxDepth = 15
  MaxClock = 1
  Limit <- Limit_Sim
  Ops = {"create", "mtagauto", "createfault", "attr", "link", "extend", "delete"}
  Faults = {"DuplicateName", "BadName", "NoneType", "WrongKind", "ForeignBlock", "NotMember", "Required", "NotFound", "BadLinkType"}
  Script <- Script_Links
  CopyKeep = {}
VIEW View
INVARIANT TypeOK
INVARIANT NameUnique
INVARIANT EidUnique
INVARIANT NoDangling
INVARIANT LinkKindAndBlock
INVARIANT RoleKindOK
PROPERTY RefusedUnchanged
PROPERTY IdNameStable
PROPERTY NumbersNeverReused
PROPERTY DeleteFrame
PROPERTY UnlinkKeepsTarget
PROPERTY CreatedAtFixed
PROPERTY UpdatedMonotone
PROPERTY TimestampLocality
PROPERTY NoAutoNoChange
PROPERTY ListedAttrStamps
ACTION_CONSTRAINT Export
CHECK_DEADLOCK FALSE
