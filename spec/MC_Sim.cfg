SPECIFICATION Spec
CONSTANTS
  Names = {"n1", "n2", "n3"}
  Vals = {1, 2}
  MaxObj = 16
  MaxDepth = 30
  MaxClock = 4
  Limit <- Limit_Sim
  Ops = {"create", "createfault", "attr", "data", "time", "link", "delete"}
  Faults = {"DuplicateName", "BadName", "NoneType", "WrongKind", "ForeignBlock", "NotMember", "Required", "NotFound", "BadLinkType"}
  Script <- NoScript
  CopyKeep = {}
VIEW View
ACTION_CONSTRAINT ExportSim
CHECK_DEADLOCK FALSE
