#!/usr/bin/env python3
"""Moves confirmed candidates from seeded/_incoming/<id> to seeded/<id> and records in meta.json what was run."""
import json, glob, os, shutil, sys
here = os.path.dirname(os.path.abspath(__file__))
val = {}
for log in sys.argv[1:]:
    for line in open(log):
        if "[" in line and "demo_clean_rc" in line:
            name = line.rsplit("[", 1)[1].strip(" ]\n")
            val[name] = line.split("[")[0].strip()
for d in sorted(glob.glob(os.path.join(here, "seeded/_incoming/*/"))):
    name = os.path.basename(d.rstrip("/"))
    v = val.get(name)
    if not v or "demo_clean_rc=0 applies=1 demo_patched_rc=1 baseline_pass=255/255" not in v:
        print("NOT CONFIRMED", name, v)
        continue
    meta = json.load(open(d + "meta.json"))
    meta["breaks"] = meta.get("property")
    meta["confirmed_by_me"] = ("tools_seedvalidate.sh in a scratch worktree of /repo HEAD: " + v +
                               " (demo passes on the clean tree, patch applies, demo fails with the patch, all 255 baseline tests pass)")
    json.dump(meta, open(d + "meta.json", "w"), indent=1, ensure_ascii=False)
    dest = os.path.join(here, "seeded", name)
    if os.path.exists(dest):
        shutil.rmtree(dest)
    shutil.move(d.rstrip("/"), dest)
    print("kept", name)
