#!/bin/sh
# Runs the repository's suite with the guard OFF and compares with /root/.vp/BASELINE.json (stable_pass must all pass).
OUT=${1:-/dev/shm/baseline.junit.xml}
cd /repo && env -u NIXPY_VERIF /venv/bin/python -m pytest -q -p no:cacheprovider --timeout=900 --continue-on-collection-errors --junitxml=$OUT >/dev/shm/baseline.log 2>&1
/venv/bin/python - "$OUT" <<'PY'
import json,sys,xml.etree.ElementTree as ET
base=json.load(open('/root/.vp/BASELINE.json'))
ok=set()
for tc in ET.parse(sys.argv[1]).getroot().iter('testcase'):
    name=tc.get('classname')+'::'+tc.get('name')
    if not any(ch.tag in('failure','error','skipped') for ch in tc): ok.add(name)
missing=[t for t in base['stable_pass'] if t not in ok]
newpass=[t for t in base['always_fail'] if t in ok]
print("baseline: %d/%d stable tests pass; %d formerly failing tests now pass"%(len(base['stable_pass'])-len(missing),len(base['stable_pass']),len(newpass)))
for m in missing: print("  BROKEN",m)
sys.exit(1 if missing else 0)
PY
