#!/bin/sh
# validates MANIFEST.json and every evidence file against the schemas (needs the tooling venv for jsonschema)
cd "$(dirname "$0")" && python3-vt - <<'PY'
import json,jsonschema,glob,sys
ok=True
jsonschema.validate(json.load(open('MANIFEST.json')),json.load(open('/root/.vp/MANIFEST.schema.json')))
print("MANIFEST ok")
sch=json.load(open('/root/.vp/EVIDENCE.schema.json'))
for f in sorted(glob.glob('evidence/*.json')):
    try:
        jsonschema.validate(json.load(open(f)),sch); print(f,"ok")
    except Exception as e:
        ok=False; print(f,"INVALID",str(e)[:300])
sys.exit(0 if ok else 1)
PY
