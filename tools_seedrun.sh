#!/bin/sh
# tools_seedrun.sh <seed-dir> <tier> [PROP...] : applies a seeded change in a scratch worktree of /repo (outside /repo
# and /verif), runs the given checks (default: the property named in meta.json) against that worktree via VERIF_REPO,
# prints one line per check, removes the worktree.
SD=$(cd "$1" && pwd); NAME=$(basename "$SD"); TIER=${2:-quick}; shift 2 2>/dev/null
PROPS="$@"
[ -z "$PROPS" ] && PROPS=$(/venv/bin/python -c "import json,sys;print(json.load(open('$SD/meta.json'))['property'])")
OUT=/dev/shm/seedrun; mkdir -p $OUT
WT=/dev/shm/wtr-$NAME
git -C /repo worktree remove --force "$WT" >/dev/null 2>&1
git -C /repo worktree add --detach "$WT" HEAD >/dev/null 2>&1 || { echo "$NAME worktree_failed"; exit 2; }
trap 'git -C /repo worktree remove --force "$WT" >/dev/null 2>&1; rm -rf "$WT"' EXIT
( cd "$WT" && git apply "$SD/patch.diff" ) || { echo "$NAME PATCH_DOES_NOT_APPLY"; exit 3; }
for P in $PROPS; do
  T0=$(date +%s)
  VERIF_REPO="$WT" VERIF_EVID_SUFFIX=".seed" /verif/check $P --tier $TIER > $OUT/$NAME.$P.log 2>&1; RC=$?
  echo "$NAME $P rc=$RC $(( $(date +%s) - T0 ))s violations=$(grep -c '^VIOLATION' $OUT/$NAME.$P.log) $(grep '  key=' $OUT/$NAME.$P.log | head -2 | tr '\n' ' ' | cut -c1-220)"
done
