{
 "property_id": "C06",
 "tier": "thorough",
 "seed": 0,
 "level": "model_checking",
 "coverage": {
  "states": 429483,
  "transitions": 453468,
  "traces_validated_against_impl": 83781,
  "samples": [
   {
    "cfg": {
     "shape": [
      0,
      2
     ],
     "view": false,
     "win": []
    },
    "q": {
     "kind": "expr",
     "e": [
      {
       "t": "ell"
      }
     ]
    },
    "r": {
     "ok": true,
     "dims": [
      {
       "idx": [],
       "drop": false
      },
      {
       "idx": [
        0,
        1
       ],
       "drop": false
      }
     ]
    }
   },
   {
    "cfg": {
     "shape": [
      0,
      2
     ],
     "view": false,
     "win": []
    },
    "q": {
     "kind": "expr",
     "e": [
      {
       "a": -4,
       "b": -1,
       "s": 2,
       "t": "slice"
      }
     ]
    },
    "r": {
     "ok": true,
     "dims": [
      {
       "idx": [],
       "drop": false
      },
      {
       "idx": [
        0,
        1
       ],
       "drop": false
      }
     ]
    }
   },
   {
    "cfg": {
     "shape": [
      2,
      1,
      3
     ],
     "view": false,
     "win": []
    },
    "q": {
     "kind": "expr",
     "e": [
      {
       "t": "ell"
      }
     ]
    },
    "r": {
     "ok": true,
     "dims": [
      {
       "idx": [
        0,
        1
       ],
       "drop": false
      },
      {
       "idx": [
        0
       ],
       "drop": false
      },
      {
       "idx": [
        0,
        1,
        2
       ],
       "drop": false
      }
     ]
    }
   },
   {
    "cfg": {
     "shape": [
      2,
      1,
      3
     ],
     "view": false,
     "win": []
    },
    "q": {
     "kind": "expr",
     "e": [
      {
       "a": -1,
       "b": 1,
       "s": 2,
       "t": "slice"
      }
     ]
    },
    "r": {
     "ok": true,
     "dims": [
      {
       "idx": [],
       "drop": false
      },
      {
       "idx": [
        0
       ],
       "drop": false
      },
      {
       "idx": [
        0,
        1,
        2
       ],
       "drop": false
      }
     ]
    }
   },
   {
    "cfg": {
     "shape": [
      2,
      1,
      2,
      2
     ],
     "view": false,
     "win": []
    },
    "q": {
     "kind": "expr",
     "e": [
      {
       "t": "ell"
      }
     ]
    },
    "r": {
     "ok": true,
     "dims": [
      {
       "idx": [
        0,
        1
       ],
       "drop": false
      },
      {
       "idx": [
        0
       ],
       "drop": false
      },
      {
       "idx": [
        0,
        1
       ],
       "drop": false
      },
      {
       "idx": [
        0,
        1
       ],
       "drop": false
      }
     ]
    }
   },
   {
    "cfg": {
     "shape": [
      2,
      1,
      2,
      2
     ],
     "view": false,
     "win": []
    },
    "q": {
     "kind": "expr",
     "e": [
      {
       "a": -1,
       "b": 1,
       "s": 2,
       "t": "slice"
      }
     ]
    },
    "r": {
     "ok": true,
     "dims": [
      {
       "idx": [],
       "drop": false
      },
      {
       "idx": [
        0
       ],
       "drop": false
      },
      {
       "idx": [
        0,
        1
       ],
       "drop": false
      },
      {
       "idx": [
        0,
        1
       ],
       "drop": false
      }
     ]
    }
   },
   {
    "cfg": {
     "shape": [
      4,
      3,
      2
     ],
     "view": false,
     "win": []
    },
    "q": {
     "kind": "expr",
     "e": [
      {
       "t": "ell"
      }
     ]
    },
    "r": {
     "ok": true,
     "dims": [
      {
       "idx": [
        0,
        1,
        2,
        3
       ],
       "drop": false
      },
      {
       "idx": [
        0,
        1,
        2
       ],
       "drop": false
      },
      {
       "idx": [
        0,
        1
       ],
       "drop": false
      }
     ]
    }
   },
   {
    "cfg": {
     "shape": [
      4,
      3,
      2
     ],
     "view": false,
     "win": []
    },
    "q": {
     "kind": "expr",
     "e": [
      {
       "t": "ell"
      },
      {
       "a": 99,
       "b": 99,
       "s": 99,
       "t": "slice"
      }
     ]
    },
    "r": {
     "ok": true,
     "dims": [
      {
       "idx": [
        0,
        1,
        2,
        3
       ],
       "drop": false
      },
      {
       "idx": [
        0,
        1,
        2
       ],
       "drop": false
      },
      {
       "idx": [
        0,
        1
       ],
       "drop": false
      }
     ]
    }
   }
  ],
  "exhaustive": false,
  "evaluations": 301808,
  "distinct_nontrivial": 301808,
  "rule": "TLC enumerates shapes (rank 1-4, zero-length axes included) x view windows (inside, touching the end, outside) x every expression built from the component pools (ints incl. negative and out of range, slices with start/stop beyond the extent on both sides, None components, steps, one ellipsis at any position, too many indices); every TLC vector is a distinct (shape, window, expression); non-trivial = vectors that reached a read or an invalid-window judgement",
  "counts": {
   "read": 83781,
   "assign": 20296,
   "assign_calibrated": 10162,
   "error_vectors": 2933,
   "invalid_views": 218027,
   "view": 287791,
   "array": 14017,
   "stateful_transitions_replayed": 31132
  },
  "strides": {
   "MC_C06_r2_quick.cfg": 1,
   "MC_C06_r2.cfg": 7,
   "MC_C06_r1.cfg": 2
  },
  "configs": [
   "MC_C06_r1.cfg",
   "MC_C06_r2_quick.cfg",
   "MC_C06_r3_quick.cfg",
   "MC_C06_r4_quick.cfg",
   "MC_C06_ell.cfg"
  ],
  "tlc_laws": [
   "InSpace",
   "InWindow",
   "ErrorOnlyFromInts",
   "WholeWindow",
   "Composition"
  ],
  "checker_cmd": "java -XX:+UseParallelGC -Xmx3g -cp /opt/veriftools/tla/tla2tools.jar:/opt/veriftools/tla/CommunityModules-deps.jar tlc2.TLC -metadir /dev/shm/nixverif-tlc-so9qstfu/tlcmeta-1790914923551766 -noGenerateSpecTE -config /verif/spec/MC_C06_r1.cfg -workers 1 /verif/spec/MC_NixIndex.tla ;; java -XX:+UseParallelGC -Xmx3g -cp /opt/veriftools/tla/tla2tools.jar:/opt/veriftools/tla/CommunityModules-deps.jar tlc2.TLC -metadir /dev/shm/nixverif-tlc-x3chji3x/tlcmeta-1790914987611478 -noGenerateSpecTE -config /verif/spec/MC_C06_r2_quick.cfg -workers 1 /verif/spec/MC_NixIndex.tla ;; java -XX:+UseParallelGC -Xmx3g -cp /opt/veriftools/tla/tla2tools.jar:/opt/veriftools/tla/CommunityModules-deps.jar tlc2.TLC -metadir /dev/shm/nixverif-tlc-d6fnucnq/tlcmeta-1790915053147503 -noGenerateSpecTE -config /verif/spec/MC_C06_r3_quick.cfg -workers 1 /verif/spec/MC_NixIndex.tla ;; java -XX:+UseParallelGC -Xmx3g -cp /opt/veriftools/tla/tla2tools.jar:/opt/veriftools/tla/CommunityModules-deps.jar tlc2.TLC -metadir /dev/shm/nixverif-tlc-4uk9rb00/tlcmeta-1790915065283627 -noGenerateSpecTE -config /verif/spec/MC_C06_r4_quick.cfg -workers 1 /verif/spec/MC_NixIndex.tla ;; java -XX:+UseParallelGC -Xmx3g -cp /opt/veriftools/tla/tla2tools.jar:/opt/veriftools/tla/CommunityModules-deps.jar tlc2.TLC -metadir /dev/shm/nixverif-tlc-rhflw3ku/tlcmeta-1790915077127598 -noGenerateSpecTE -config /verif/spec/MC_C06_ell.cfg -workers 1 /verif/spec/MC_NixIndex.tla ;; java -XX:+UseParallelGC -cp /opt/veriftools/tla/tla2tools.jar:/opt/veriftools/tla/CommunityModules-deps.jar tlc2.TLC -metadir /dev/shm/nixverif-tlca-tx5zseha/tlcmeta-1790915080243400 -noGenerateSpecTE -config /verif/spec/MC_C01_quick.cfg -workers 1 /verif/spec/MC_NixArray.tla"
 },
 "assumptions": [
  "views and region reads are also taken after every step of the NixArray histories (append, resize, region assignment through one of two long-lived handles) so that a window is judged against the array's current extent",
  "negative window starts and more indices than dimensions on a view are left open",
  "element type int64; value fidelity per element type is C01's business",
  "the specification's selection is cross-checked against NumPy on every vector (disagreement = machinery failure)"
 ],
 "wall_s": 987.76,
 "violations": 0,
 "known_findings_reproduced": [],
 "notes": []
}