#!/bin/sh
# tools_sweep.sh <tier> <seed...> : runs every claimed check with each seed; prints one line per run (for background sweeps)
TIER=$1; shift
for S in "$@"; do
  for P in $(/venv/bin/python -c "import json;print(' '.join(c['property_id'] for c in json.load(open('MANIFEST.json'))['checks']))"); do
    T0=$(date +%s)
    VERIF_SEED=$S ./check $P --tier $TIER > sweep_${P}_$S.log 2>&1; RC=$?
    echo "seed=$S $P rc=$RC $(( $(date +%s) - T0 ))s $(grep -c '^VIOLATION' sweep_${P}_$S.log) violations; $(grep '  key=' sweep_${P}_$S.log | head -3 | tr '\n' ' ' | cut -c1-300)"
  done
done
