# -*- coding: utf-8 -*-
"""
C17 - flush() and close() make everything written so far survive a process kill.

NixSession.tla places Flush / Close / Kill in write histories (KillAfterFlushLosesNothing, OpenShowsDisk, DiskMonotone
checked by TLC); the writes are the calls of NixModel transitions exported by TLC and - for arrays grown by appends,
resized, compressed or not, of every element type - of NixArray transitions.  Every session runs in a forked child
that records the projection at each flush()/close() and is SIGKILLed (os.kill(getpid(), SIGKILL): no interpreter
shut-down, no HDF5 close) where the schedule says so; the parent opens the file read-only and read-write and compares.
"""
import json

from . import core
from . import runner
from . import sessions
from . import c11


def run(tier, seed, verdict):
    quick = tier != "thorough"
    with core.Scratch("c17") as tmp:
        sruns, sres = c11.session_runs(tier, seed, "kill", tmp,
                                       c11.SESSION_CFGS_QUICK if quick else c11.SESSION_CFGS_THOROUGH)
        aruns = [runner.ExportRun("MC_NixArray", "MC_C01_quick.cfg" if quick else "MC_C01.cfg", seed, "harness.arraykill",
                                  stride=8 if quick else 12, batch=20)]
        level, cov, assumptions = runner.assemble(
            "C17", verdict, sruns + aruns,
            owns=lambda f: f.get("owner", "C17") == "C17",
            rule="crash points = every Flush / Close followed by Kill that TLC's session model places in the write "
                 "histories of the entity-graph model (all entity kinds, links, deletes, attribute and data writes; "
                 "sessions reopened read-write and read-only in between; a second File object opened on the same path "
                 "by the writing process, the older one closed, then the kill) and after every history of the array model "
                 "(appends along any axis, resizes, region writes; 12 element types; file x block x array compression); "
                 "the writer is a forked process SIGKILLed right after flush()/close() returned; the parent opens the "
                 "file read-only and read-write and compares the complete projection with the one recorded at the "
                 "flush point and with the specification state",
            assumptions=["kills with unflushed writes are explored by the model (mode 'dead') but nothing is judged after them",
                         "the kill is delivered by the process to itself immediately after flush()/close() returns",
                         "power loss / OS crash (page cache not written) is not modelled: the property is about process kill"],
            tlc_props=["KillAfterFlushLosesNothing", "CloseMakesDurable", "OpenShowsDisk", "DiskMonotone", "TypeOK"],
            need=("kills", "verifications", "array_kills", "second_closes"),
            extra={"session_schedules": sum(r.nschedules for r in sruns)})
    return level, cov, assumptions


def replay(path):
    with open(path) as fh:
        rec = json.load(fh)
    rp = rec["replay"]
    if isinstance(rp, dict) and rp.get("engine", "").startswith("NixSession"):
        return sessions.replay_record(rec, "C17")
    from . import arraykill
    return arraykill.replay_record(rec)
