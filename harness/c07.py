# -*- coding: utf-8 -*-
"""
C07 - dimension descriptors map positions to sample indices by order.

TLC enumerates NixDim (descriptors x queries); the laws RoundTrip, ModeMeaning,
DecompOK, Contiguous, ExclusiveSubset are checked on every vector; every
exported vector is executed against a real dimension object in a scratch file.
"""
import os

from . import core

NOSUCH = -1000


def pos_class(d, p):
    if d["kind"] == "sampled":
        if p < d["off"]:
            return "before_first"
        if (p - d["off"]) % d["iv"] == 0:
            return "on_first_sample" if p == d["off"] else "on_sample"
        return "between"
    if d["kind"] == "range":
        t = d["ticks"]
        if p < t[0]:
            return "before_first"
        if p > t[-1]:
            return "after_last"
        if p in t:
            return "on_first_sample" if p == t[0] else "on_sample"
        return "between"
    n = d["n"]
    if p < 0:
        return "before_first"
    if n and p > 4 * (n - 1):
        return "after_last"
    if p % 4 == 0:
        return "on_first_sample" if p == 0 else "on_sample"
    return "between"


def desc_class(d):
    if d["kind"] == "sampled":
        return "offset_" + ("neg" if d["off"] < 0 else "zero" if d["off"] == 0 else "pos")
    if d["kind"] == "range":
        t = d["ticks"]
        rep = any(t[i] == t[i + 1] for i in range(len(t) - 1))
        return ("single_tick" if len(t) == 1 else "repeated_ticks" if rep else "strict_ticks")
    return "unbounded" if d["n"] == 0 else "labels"


def run(tier, seed, verdict, only=None):
    nixio = core.import_nixio()
    from nixio import IndexMode, SliceMode
    MODE = {"leq": IndexMode.LessOrEqual, "less": IndexMode.Less, "geq": IndexMode.GreaterOrEqual}
    SMODE = {"inclusive": SliceMode.Inclusive, "exclusive": SliceMode.Exclusive}
    G = 4.0  # default grid; every vector carries its own
    counts = {}
    samples = []
    nontrivial = set()
    state = {"desc": None, "dim": None, "n": 0}

    with core.Scratch("c07") as tmp:
        nf = nixio.File.open(os.path.join(tmp, "dims.nix"), nixio.FileMode.Overwrite)
        blk = nf.create_block("b", "t")

        def dim_for(d, G):
            key = repr(sorted(d.items())) + repr(G)
            if state["desc"] == key:
                return state["dim"]
            state["n"] += 1
            da = blk.create_data_array("a%d" % state["n"], "t", data=[0.0])
            how = state["n"] % 3          # every third descriptor is first created differently, then re-described
            if d["kind"] == "sampled":
                off = d["off"] / G
                if how == 1:
                    # ... with another interval and another (non-zero) offset, then set to the configuration's values
                    dim = da.append_sampled_dimension(d["iv"] / G + 0.5, offset=off + 2.0 if off + 2.0 != 0 else 1.0)
                    dim.sampling_interval = d["iv"] / G
                    dim.offset = off
                    counts["redescribed"] = counts.get("redescribed", 0) + 1
                else:
                    dim = da.append_sampled_dimension(d["iv"] / G, offset=off)
                    if off != 0 and dim.offset != off:
                        raise core.MachineryError("offset not stored")
            elif d["kind"] == "range":
                ticks = [t / G for t in d["ticks"]]
                if how == 1:
                    dim = da.append_range_dimension(ticks=[t + 1.0 for t in ticks] + [ticks[-1] + 5.0])
                    dim.ticks = ticks
                    counts["redescribed"] = counts.get("redescribed", 0) + 1
                else:
                    dim = da.append_range_dimension(ticks=ticks)
            else:
                labels = ["l%d" % i for i in range(d["n"])]
                if how == 1 and labels:
                    dim = da.append_set_dimension(labels=["x"] + labels)
                    dim.labels = labels
                    counts["redescribed"] = counts.get("redescribed", 0) + 1
                else:
                    dim = da.append_set_dimension(labels=labels if labels else None)
            # reach the descriptor the way a user does after creation: through the container
            dim = da.dimensions[0]
            state["desc"], state["dim"] = key, dim
            return dim

        def judge(vec):
            d, q, r = vec["cfg"], vec["q"], vec["r"]
            G = float(vec.get("g", 4))
            kind = q["kind"]
            ck = d["kind"] + "/" + kind
            counts[ck] = counts.get(ck, 0) + 1
            if counts[ck] in (1, 500) and len(samples) < 12:
                samples.append(vec)
            dim = dim_for(d, G)
            nontrivial.add((state["desc"], repr(sorted(q.items()))))
            if kind == "index_of":
                want = r["idx"]
                key = "%s/index_of/%s/%s/%s" % (d["kind"], q["mode"], pos_class(d, q["p"]), desc_class(d))
                try:
                    got = int(dim.index_of(q["p"] / G, MODE[q["mode"]]))
                except IndexError:
                    got = NOSUCH
                except Exception as exc:  # noqa
                    verdict.violation(key + "/raises_other", {"descriptor": d, "query": q, "exc": repr(exc)}, vec)
                    return
                if got != want:
                    verdict.violation(key, {"descriptor": d, "query": q,
                                            "expected": "IndexError" if want == NOSUCH else want,
                                            "observed": "IndexError" if got == NOSUCH else got,
                                            "grid": "coordinates are in units of 1/4"}, vec)
            elif kind == "range_indices":
                want = tuple(r["rng"]) if r["rng"] else None
                key = "%s/range_indices/%s/%s-%s/%s" % (d["kind"], q["sm"], pos_class(d, q["a"]),
                                                      pos_class(d, q["b"]), desc_class(d))
                try:
                    got = dim.range_indices(q["a"] / G, q["b"] / G, SMODE[q["sm"]])
                    got = None if got is None else tuple(int(x) for x in got)
                except Exception as exc:  # noqa
                    verdict.violation(key + "/raises", {"descriptor": d, "query": q, "exc": repr(exc)}, vec)
                    return
                if got != want:
                    verdict.violation(key, {"descriptor": d, "query": q, "expected": want, "observed": got}, vec)
            elif kind == "coord_at":
                want = r["c"] / G
                try:
                    got = dim.position_at(q["i"]) if d["kind"] == "sampled" else dim.tick_at(q["i"])
                except Exception as exc:  # noqa
                    verdict.violation("%s/coord_at/raises" % d["kind"], {"descriptor": d, "query": q, "exc": repr(exc)}, vec)
                    return
                if float(got) != want:
                    verdict.violation("%s/coord_at/%s" % (d["kind"], desc_class(d)),
                                      {"descriptor": d, "query": q, "expected": want, "observed": got}, vec)
            elif kind == "axis":
                want = [c / G for c in r["axis"]]
                try:
                    got = [float(x) for x in dim.axis(q["count"], q["start"])]
                except Exception as exc:  # noqa
                    verdict.violation("%s/axis/raises" % d["kind"], {"descriptor": d, "query": q, "exc": repr(exc)}, vec)
                    return
                if got != want:
                    verdict.violation("%s/axis/%s" % (d["kind"], desc_class(d)),
                                      {"descriptor": d, "query": q, "expected": want, "observed": got}, vec)

        def cb(tx):
            if isinstance(tx, tuple) and tx and tx[0] == "TX":
                judge(tx[1])

        if only is not None:
            judge(only)
            nf.close()
            return None
        cfg = "MC_C07.cfg" if tier == "thorough" else "MC_C07_quick.cfg"
        res = core.run_tlc("MC_NixDim", cfg, tmp, workers=1, export_cb=cb, timeout=3000, coverage=False)
        res2 = core.run_tlc("MC_NixDim", "MC_C07_big.cfg", tmp, workers=1, export_cb=cb, timeout=3000, coverage=False)
        nf.close()
    for extra in (res2,):
        if extra.violation is not None:
            verdict.violation("tlc/law_violated/big", {"tlc": extra.violation, "trace": extra.error_trace[:40]})
        elif extra.rc != 0:
            raise core.MachineryError("TLC failed: rc=%s\n%s" % (extra.rc, "\n".join(extra.log_tail[-20:])))
        res.distinct += extra.distinct
        res.exports += extra.exports
        res.generated += extra.generated
    if res.violation is not None:
        verdict.violation("tlc/law_violated", {"tlc": res.violation, "trace": res.error_trace[:40]})
    elif res.rc != 0:
        raise core.MachineryError("TLC failed: rc=%s\n%s" % (res.rc, "\n".join(res.log_tail[-20:])))
    for need in ("sampled/index_of", "range/index_of", "set/index_of", "sampled/range_indices",
                 "range/range_indices", "set/range_indices", "sampled/coord_at", "range/coord_at",
                 "sampled/axis", "range/axis"):
        if not counts.get(need):
            raise core.MachineryError("vacuity: no %s vectors" % need)
    coverage = {
        "states": res.distinct, "transitions": res.exports,
        "traces_validated_against_impl": sum(counts.values()),
        "samples": samples, "exhaustive": True,
        "evaluations": sum(counts.values()), "distinct_nontrivial": len(nontrivial),
        "rule": "TLC enumerates every descriptor of the configuration (sampled: interval x offset; range: every "
                "non-decreasing tick vector; set: label counts) and every query (index_of: position x mode; "
                "range_indices: a<=b x slice mode; position_at/tick_at; axis); each vector is one call on a real "
                "dimension object; distinct = distinct (descriptor, query)",
        "per_kind": counts, "descriptors_built": state["n"],
        "tlc": {"config": cfg, "generated": res.generated, "distinct": res.distinct,
                "laws": ["RoundTrip", "ModeMeaning", "DecompOK", "Contiguous", "ExclusiveSubset", "BigEnough"],
                "wall_s": round(res.wall, 1)},
        "checker_cmd": res.cmd,
    }
    assumptions = [
        "a second configuration uses grid 1/1024 with offsets of +-4096 and 40960 (offset/interval ratio 2*10^6..2*10^7), "
        "positions on and half-way between samples, so tolerances taken relative to the absolute position are exposed",
        "coordinates on a grid of 1/4: positions, ticks, offsets and intervals are exact binary fractions, the "
        "np.isclose tolerance zone is not probed",
        "sampling intervals > 0; start <= end in range_indices (start > end is left open)",
        "a set dimension without labels is unbounded; index bound 64 stands in for 'unbounded' (law BigEnough)",
    ]
    return "model_checking", coverage, assumptions


def _replay_vector(path, prop, runfn):
    import json
    with open(path) as fh:
        rec = json.load(fh)
    verdict = core.Verdict(prop, "quick", 0)
    runfn("quick", 0, verdict, only=rec["replay"])
    hit = rec["key"] in verdict.violations
    for k, v in verdict.violations.items():
        print("MISMATCH key=%s\n  %s" % (k, json.dumps(v["detail"], default=repr)[:700]))
    print("recorded key %s: %s" % (rec["key"], "REPRODUCED" if hit else "not reproduced"))
    if hit:
        print("VIOLATION property=%s replay=%s" % (prop, path))
    return 1 if hit else 0


def replay(path):
    return _replay_vector(path, "C07", run)
