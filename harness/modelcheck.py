# -*- coding: utf-8 -*-
"""
Shared driver for the properties decided on NixModel (C02 C03 C04 C05 C12 C19 ...):
runs one or more TLC configurations with replay, attributes findings to the owning
property (DESIGN 2.5 facets) and assembles the evidence.
"""
from . import core
from . import modelreplay as mr

LINK_ACTIONS = ("LinkAppend", "LinkExtend", "SetRole")
UNLINK_ACTIONS = ("Delete", "LinkRemove", "ClearRole")
CREATE_ACTIONS = ("Create", "CreateMTag", "CreateFeature", "CreateProperty")
WRITE_ACTIONS = ("SetAttr", "WriteData")
TIME_ACTIONS = ("Tick", "ToggleAuto", "Force")


def owner_of(f):
    """Which property owns a finding (facets, DESIGN 2.5)."""
    if f["facet"] == "time":
        return "C19"
    if f["stage"].startswith("reopen"):
        return "C02"
    if f["stage"] in ("lookup", "ids", "init"):
        return "C03"
    if f["stage"] == "handle":
        # "independent of how many handles": a handle that reports something else than the file does
        gp = f["detail"].get("gpath", "")
        if "@pos" in gp:
            return "C03"          # positional indexing disagrees with iteration
        return "C05" if "links:" in gp or "metadata" in gp else "C02"
    if f["stage"] == "search":
        return "C13"
    if f["stage"] == "stamps":
        return "C19"
    if f["stage"] in ("xcopy", "copy_returned") or f["action"] == "Copy":
        return "C20"
    if f["stage"] in ("name_still_free", "noise"):
        return "C12"
    out = f["out"]
    not_refused = f["stage"] == "outcome" and f["detail"].get("observed") == "ok"
    if out != "ok":
        if not_refused and out == "refused:DuplicateName":
            return "C03"
        if not_refused and f["action"] in LINK_ACTIONS + ("CreateFeature",):
            return "C05"
        return "C12"
    if f["action"] in UNLINK_ACTIONS:
        return "C04"
    if f["action"] in LINK_ACTIONS:
        return "C05"
    if f["action"] in CREATE_ACTIONS:
        return "C03"
    if f["action"] in WRITE_ACTIONS:
        gp = f["detail"].get("gpath", "")
        if "links:" in gp or "/metadata" in gp or "/positions" in gp or "/extents" in gp or gp.endswith("/data/data"):
            return "C05"
        return "C02"
    if f["action"] in TIME_ACTIONS:
        return "C19"
    return "C02"


def run_property(prop, verdict, runs, require_actions=(), tlc_props=(), rule="", assumptions=(), also_own=None):
    """
    runs: list of ModelRun objects (not yet run).  Every finding owned by `prop` is a violation; others are
    counted as foreign-facet mismatches (reported by the owning property's own check).
    """
    total = {"states": 0, "exported": 0, "replayed": 0, "truncated": 0, "calls": 0, "probes": 0}
    models = []
    samples = []
    foreign = {}
    cmds = []
    per_action = {}
    for run_ in runs:
        run_.run()
        tlc = run_.res
        if tlc.violation is not None:
            verdict.violation("tlc/%s/%s" % (run_.cfg, tlc.violation[:90]),
                              {"tlc": tlc.violation, "trace": tlc.error_trace[:80], "config": run_.cfg})
        for f in run_.findings:
            own = owner_of(f)
            if own == prop or (also_own and also_own(f)):
                verdict.violation(mr.key_of(f), f["detail"], f["replay"])
            else:
                foreign[own] = foreign.get(own, 0) + 1
                verdict.note("mismatch in a facet owned by %s: %s %s" % (own, mr.key_of(f), str(f["detail"])[:160]),
                             cls="foreign/%s/%s" % (own, mr.key_of(f)))
        total["states"] += tlc.distinct
        for k in ("exported", "replayed", "truncated", "calls", "probes"):
            total[k] += run_.stats[k]
        for k, v in run_.per_action.items():
            per_action[k] = per_action.get(k, 0) + v
        models.append(run_.coverage())
        samples.extend(run_.samples[:2])
        cmds.append(tlc.cmd)
    if total["replayed"] and total["truncated"] > 0.10 * total["replayed"] and not verdict.violations:
        # a replay is truncated when its history no longer reaches the recorded pre-state; on a healthy tree that is
        # rare - a high rate means the harness lost track of the specification and is verifying nothing
        raise core.MachineryError("vacuity: %d of %d replays truncated by an earlier divergence" % (total["truncated"], total["replayed"]))
    for need in require_actions:
        if not per_action.get(need):
            raise core.MachineryError("vacuity: action %s never explored (%s)" % (need, sorted(per_action)))
    coverage = {
        "states": total["states"], "transitions": total["exported"],
        "traces_validated_against_impl": total["replayed"] - total["truncated"],
        "samples": samples or [{"note": "no sample recorded"}],
        "exhaustive": all(r.stride == 1 and not r.simulate and not r.max_tx and not r.stats.get("skipped_by_budget") for r in runs),
        "evaluations": total["replayed"], "distinct_nontrivial": total["replayed"] - total["truncated"],
        "rule": rule or "every exported transition of the TLC state graph is replayed from an empty file "
                        "(history prefix in one session, then the action), full projection compared before and after",
        "api_calls": total["calls"], "probes_run": total["probes"],
        "truncated_by_earlier_divergence": total["truncated"],
        "foreign_facet_mismatches": foreign, "per_action": dict(sorted(per_action.items())),
        "models": models, "tlc_properties": list(tlc_props), "checker_cmd": " ;; ".join(cmds),
    }
    return "model_checking", coverage, list(assumptions)
