# -*- coding: utf-8 -*-
"""C04 - deleting removes the entity, what it owns and every link to it - nothing else."""
from . import modelreplay as mr
from .modelcheck import run_property


def run(tier, seed, verdict):
    quick = tier != "thorough"
    runs = [mr.ModelRun("MC_C04_quick.cfg", seed, probes=("reopen",), name_pools=[0, 1, 2, 4], stride=1),
            mr.ModelRun("MC_SimLinks.cfg", seed + 2, probes=("reopen",), name_pools=[0, 2],
                        simulate="num=%d" % (10 if quick else 300), depth=34),
            mr.ModelRun("MC_C03_quick.cfg", seed + 1, probes=(), name_pools=[0, 2], stride=4,
                        accept=lambda tx: tx["act"]["name"] == "Delete")]
    return run_property(
        "C04", verdict, runs, require_actions=("Delete:ok", "LinkRemove:ok", "ClearRole:ok", "LinkAppend:ok", "SetRole:ok"),
        tlc_props=["NoDangling", "LinkKindAndBlock", "RoleKindOK", "DeleteFrame (declarative frame condition vs. the "
                   "operational delete-by-entity-id)", "UnlinkKeepsTarget", "IdNameStable"],
        also_own=lambda f: f["stage"].startswith("reopen") and f["action"] in ("Delete", "LinkRemove", "ClearRole"),
        rule="scripted creation prefix (2 blocks, arrays, groups, tag, multi-tag with positions/extents, feature, nested "
             "sources and sections, names reused across parents), then every interleaving of link / set-role / unlink / "
             "delete within the depth bound; deletion by name, id, index, negative index or object chosen by the "
             "concretisation; full projection (all lists, role links, survivors) compared after each call and after reopen",
        assumptions=["what a dimension link reports after its target was deleted is left open",
                     "positions / extents / feature data of another block are refused (fix 31143be), so links into another block do not exist"])


def replay(path):
    return mr.replay_file(path)
