# -*- coding: utf-8 -*-
"""
Binding A for NixArray: every exported transition (hist, act, from, to) is replayed on a real DataArray.

Two long-lived handles to the same array are kept (the one returned by create_data_array and one looked up right
after creation); every call goes through one of them (seeded), every read through both - plus a fresh lookup - so
anything cached on a handle is exercised.  The concretisation picks element type, values (by stamp), compression
at file / block / array level and the creation variant.
"""
import multiprocessing as mp
import os
import shutil
import tempfile
import threading
import zlib
import json
import random

import numpy as np

from . import core
from .c06 import pyexpr

NONE = 99
_W = {}

INT_TYPES = ["int8", "int16", "int32", "int64", "uint8", "uint16", "uint32", "uint64"]
ALL_TYPES = INT_TYPES + ["float32", "float64", "bool", "text"]


def pool_for(dt):
    if dt == "text":
        return ["", "a", "ünï çødé", "名前", "x" * 70, " lead", "tail ", "new\nline", "0", "NaN"]
    if dt == "bool":
        return [True, False, True, True, False]
    if dt.startswith("float"):
        t = np.dtype(dt).type
        fi = np.finfo(t)
        return [t(0.0), t(-0.0), t(1.5), t(-2.25), fi.max, fi.min, fi.tiny, t("nan"), t("inf"), t("-inf"), t(1e-7), t(123456.75)]
    ii = np.iinfo(dt)
    return [ii.max, ii.min, 0, 1, ii.max - 1, ii.min + 1, 42, ii.max // 3]


def fill_for(dt):
    return "" if dt == "text" else (False if dt == "bool" else np.dtype(dt).type(0))


class ArrConc:
    def __init__(self, seed, mode):
        self.seed = seed
        rnd = random.Random(seed)
        self.mode = mode
        if mode == "calib":
            self.dtype = rnd.choice(INT_TYPES[:4] + ["float32", "float64", "int8", "int64"])
        else:
            self.dtype = ALL_TYPES[seed % len(ALL_TYPES)]
        self.compr = [rnd.choice(["No", "DeflateNormal", "Auto"]) for _ in range(3)]   # file, block, array
        self.variant = rnd.choice(["data", "data_list", "shape_then_write"])
        self.pool = pool_for(self.dtype)
        self.fill = fill_for(self.dtype)
        # calibration on floating-point storage: for half of the float concretisations the raw values and the non-zero
        # origins carry a fraction (x + 0.1), so that the difference x - origin is only right in double precision
        self.frac = mode == "calib" and self.dtype in ("float32", "float64") and (seed // 11) % 2 == 1

    def value(self, stamp, raw):
        if stamp[0] == 0:
            return self.fill
        if self.mode == "calib":
            if self.frac:
                return np.dtype(self.dtype).type(raw + 0.1)
            return raw                       # small integers defined by the specification (RawVal)
        h = zlib.crc32(("%d:%d:%d" % (stamp[0], stamp[1], self.seed)).encode())
        return self.pool[h % len(self.pool)]

    def npdtype(self):
        return object if self.dtype == "text" else np.dtype(self.dtype)

    def block(self, w, shape, raws=None):
        """concrete data of write number w with block shape `shape`"""
        n = int(np.prod(shape)) if len(shape) else 1
        vals = [self.value((w, k), None if raws is None else raws[k]) for k in range(n)]
        arr = np.array(vals, dtype=self.npdtype()) if n else np.zeros((0,), dtype=self.npdtype())
        return arr.reshape(tuple(shape))

    def describe(self):
        return {"seed": self.seed, "dtype": self.dtype, "compression(file,block,array)": self.compr,
                "creation": self.variant}


def same(a, b, dt):
    a = np.asarray(a)
    b = np.asarray(b)
    if a.shape != b.shape:
        return False
    if dt == "text":
        return all(str(x) == str(y) for x, y in zip(a.ravel(), b.ravel()))
    if dt == "float64" and _W.get("tol"):
        # fractional calibration values: the polynomial in double precision, whatever the evaluation order
        return bool(np.allclose(a.astype(np.float64), b.astype(np.float64), rtol=1e-12, atol=1e-12, equal_nan=True))
    if dt.startswith("float"):
        af = a.astype(np.dtype(dt), copy=False).ravel()
        bf = b.astype(np.dtype(dt), copy=False).ravel()
        for x, y in zip(af, bf):
            if np.isnan(x) and np.isnan(y):
                continue
            if x != y or np.signbit(x) != np.signbit(y):
                return False
        return True
    return bool(np.array_equal(a, b))


class ArrSession:
    def __init__(self, nixio, path, conc):
        self.nixio = nixio
        self.conc = conc
        self.path = path
        C = nixio.Compression
        cm = {"No": C.No, "DeflateNormal": C.DeflateNormal, "Auto": C.Auto}
        self.cm = cm
        self.nf = nixio.File.open(path, nixio.FileMode.Overwrite, compression=cm[conc.compr[0]])
        self.blk = self.nf.create_block("blk", "t", compression=cm[conc.compr[1]])
        self.A = None
        self.B = None
        self.rnd = random.Random(conc.seed)
        self.nw = 0

    def handle(self):
        return self.A if self.rnd.random() < 0.5 else self.B

    def dtype_arg(self):
        D = self.nixio.DataType
        return D.String if self.conc.dtype == "text" else np.dtype(self.conc.dtype).type

    def effective_compression(self):
        a, b, f = self.conc.compr[2], self.conc.compr[1], self.conc.compr[0]
        eff = a if a != "Auto" else (b if b != "Auto" else (f if f != "Auto" else "No"))
        return eff == "DeflateNormal"

    def apply(self, act, raws_after=None):
        n = act["name"]
        c = self.conc
        try:
            if n == "Create":
                shape = tuple(act["shape"])
                comp = self.cm[c.compr[2]]
                if act["data"]:
                    data = c.block(1, shape, raws_after)
                    if c.variant == "data_list" and c.dtype != "text" and all(shape):
                        self.A = self.blk.create_data_array("arr", "t", data=data.tolist(), dtype=self.dtype_arg(),
                                                            compression=comp)
                    elif c.variant == "shape_then_write":
                        self.A = self.blk.create_data_array("arr", "t", dtype=self.dtype_arg(), shape=shape,
                                                            compression=comp)
                        self.A.write_direct(data)
                    else:
                        self.A = self.blk.create_data_array("arr", "t", data=data, dtype=self.dtype_arg(),
                                                            compression=comp)
                    self.nw = 1
                else:
                    self.A = self.blk.create_data_array("arr", "t", dtype=self.dtype_arg(), shape=shape,
                                                        compression=comp)
                self.B = self.blk.data_arrays["arr"]
                _ = self.A.shape, self.B.shape        # both handles have looked at the extent once
            elif n == "CreateMismatch":
                shape = tuple(act["shape"])
                wrong = tuple(s + 1 for s in shape)
                self.blk.create_data_array("arr", "t", data=np.zeros(wrong), shape=shape)
            elif n == "CreateBad":
                kind = act["kind"]
                if kind == "dtype_unknown":
                    self.blk.create_data_array("arr", "t", dtype="no-such-type", shape=(2, 3))
                elif kind == "object_data":
                    self.blk.create_data_array("arr", "t", data=[object(), 1])
                elif kind == "mixed_text":
                    self.blk.create_data_array("arr", "t", data=["text", 1.5])
                elif kind == "label_type":
                    self.blk.create_data_array("arr", "t", data=np.zeros((2, 2)), label=5)
                else:
                    self.blk.create_data_array("arr", "t", data=np.zeros((2, 2)), unit=5)
            elif n == "WriteAll":
                h = self.handle()
                data = c.block(self.nw + 1, h.shape, raws_after)
                if self.rnd.random() < 0.5:
                    h.write_direct(data)
                else:
                    h[...] = data
                self.nw += 1
            elif n == "Assign":
                h = self.handle()
                ex = pyexpr(act["e"])
                if len(ex) == 1 and self.rnd.random() < 0.5:
                    ex = ex[0]
                if act["out"] == "ok":
                    blockraw = None
                    if raws_after is not None:
                        blockraw = act.get("_blockraw")
                    data = c.block(self.nw + 1, act["block"], blockraw).reshape(tuple(act["rshape"]))
                    if data.shape == ():
                        data = data[()] if c.dtype != "text" else str(data[()])
                    h[ex] = data
                    self.nw += 1
                else:
                    h[ex] = c.block(self.nw + 1, [1])[0]
            elif n == "Append":
                h = self.handle()
                data = c.block(self.nw + 1, act["block"], act.get("_blockraw"))
                h.append(data, axis=act["axis"] - 1)
                self.nw += 1
            elif n == "AppendBad":
                h = self.handle()
                shp = h.shape
                if act["kind"] == "rank":
                    bad = np.zeros(tuple(shp) + (1,))
                else:
                    bad = np.zeros(tuple(s + (1 if i == 1 else 0) if i else 1 for i, s in enumerate(shp)))
                h.append(bad, axis=0)
            elif n == "Resize":
                h = self.handle()
                h.data_extent = tuple(act["shape"])
            elif n == "SetCoef":
                h = self.handle()
                h.polynom_coefficients = [float(x) for x in act["c"]] if act["c"] else None
            elif n == "SetCoefBad":
                h = self.handle()
                h.polynom_coefficients = [1.0, "x"]
            elif n == "SetOrigin":
                h = self.handle()
                h.expansion_origin = None if act["o"] == NONE else float(act["o"]) + (0.1 if c.frac and act["o"] != 0 else 0.0)
            else:
                raise core.MachineryError("unknown array action %r" % n)
        except core.MachineryError:
            raise
        except Exception as exc:  # noqa
            return exc
        return None

    def expected_array(self, st):
        shape = tuple(st["shape"])
        cells = st["cells"]
        raws = st["raw"]
        vals = [self.conc.value(tuple(cells[j]), raws[j]) for j in range(len(cells))]
        arr = np.array(vals, dtype=self.conc.npdtype()) if vals else np.zeros((0,), dtype=self.conc.npdtype())
        return arr.reshape(shape)

    def close(self):
        try:
            self.nf.close()
        except Exception:  # noqa
            pass


def check_state(sess, st, findings, stage, tx, calibrated_facet=False):
    """Compare everything readable with the specification state `st`."""
    c = sess.conc
    if not st["made"]:
        n = len(sess.blk.data_arrays)
        if n:
            findings.append(mk(stage, tx, "array_exists_after_refused_creation", {"arrays": n}))
        return
    want = sess.expected_array(st)
    shape = tuple(st["shape"])
    if "calibrated" not in st:
        # the pre-state of a transition is exported without the derived read values: same definition as ReadVal in NixArray.tla
        o = 0 if st["origin"] == NONE else st["origin"]
        st = dict(st, calibrated=bool(st["coef"]) or st["origin"] not in (NONE, 0))
        if st["calibrated"]:
            def poly(x):
                if not st["coef"]:
                    return x
                acc = 0
                for k in reversed(st["coef"]):
                    acc = acc * x + k
                return acc
            st["cal"] = [poly(r - o) for r in st["raw"]]
    calibrated = st.get("calibrated", False)
    _W["tol"] = False
    if calibrated:
        wantread = np.array([float(x) for x in st["cal"]], dtype=np.float64).reshape(shape)
        if c.frac:
            # c0 + c1 (x - o) + ... of the stored values, in double precision
            x = np.asarray(want).astype(np.float64)
            o = 0.0 if st["origin"] in (NONE, 0) else float(st["origin"]) + 0.1
            y = x - o
            coef = [float(k) for k in st["coef"]]
            if coef:
                acc = np.zeros_like(y)
                for k in reversed(coef):
                    acc = acc * y + k
                y = acc
            wantread = y.reshape(shape)
            _W["tol"] = True
    handles = [("A", sess.A), ("B", sess.B)]
    try:
        handles.append(("fresh", sess.blk.data_arrays["arr"]))
    except Exception as exc:  # noqa
        findings.append(mk(stage, tx, "lookup_raises", {"exc": repr(exc)[:160]}))
    for label, h in handles:
        if h is None:
            continue
        try:
            if tuple(h.shape) != shape or tuple(h.data_extent) != shape:
                findings.append(mk(stage, tx, "shape/" + label, {"expected": shape, "observed": tuple(h.shape)}))
            if len(shape) and len(h) != shape[0]:
                findings.append(mk(stage, tx, "len/" + label, {"expected": shape[0], "observed": len(h)}))
            if int(h.size) != int(np.prod(shape)):
                findings.append(mk(stage, tx, "size/" + label, {"expected": int(np.prod(shape)), "observed": int(h.size)}))
            wantdt = np.dtype(object) if c.dtype == "text" else np.dtype(c.dtype)
            if c.dtype != "text" and np.dtype(h.dtype) != wantdt:
                findings.append(mk(stage, tx, "dtype/" + label, {"expected": str(wantdt), "observed": str(h.dtype)}))
            # raw stored values (directly from the HDF5 dataset: calibration must never touch them)
            raw = h._h5group.group["data"][...]
            if c.dtype == "text":
                raw = np.array([x.decode() if isinstance(x, bytes) else x for x in raw.ravel()], dtype=object).reshape(raw.shape)
            if not same(raw, want, c.dtype):
                findings.append(mk(stage, tx, "stored_values/" + label,
                                   {"expected": repr(want.tolist())[:200], "observed": repr(raw.tolist())[:200],
                                    "dtype": c.dtype}))
                continue
            got = h[:]
            if calibrated:
                if got.dtype != np.float64 or not same(got, wantread, "float64"):
                    findings.append(mk(stage, tx, "calibrated_read/" + label,
                                       {"expected": repr(wantread.tolist())[:200], "observed": repr(np.asarray(got).tolist())[:200],
                                        "dtype": str(got.dtype)}))
                    continue
            else:
                if not same(got, want, c.dtype) or (c.dtype != "text" and got.dtype != wantdt):
                    findings.append(mk(stage, tx, "read/" + label,
                                       {"expected": repr(want.tolist())[:200], "observed": repr(np.asarray(got).tolist())[:200],
                                        "dtype": "%s (want %s)" % (got.dtype, wantdt)}))
                    continue
            ref = wantread if calibrated else want
            refdt = "float64" if calibrated else c.dtype
            if all(shape):
                # other read paths: read_direct, a region, a view (whole window and a sub-window), iteration
                if c.dtype != "text":
                    buf = np.empty(shape, dtype=np.float64 if calibrated else wantdt)
                    h.read_direct(buf)
                    if not same(buf, ref, refdt):
                        findings.append(mk(stage, tx, "read_direct/" + label, {"expected": repr(ref.tolist())[:160],
                                                                             "observed": repr(buf.tolist())[:160]}))
                idx = tuple(slice(0, max(1, s - 1)) for s in shape)
                if not same(h[idx], ref[idx], refdt):
                    findings.append(mk(stage, tx, "region_read/" + label, {"index": repr(idx)}))
                last = tuple(s - 1 for s in shape)
                one = h[last]
                if np.shape(one) != (1,) or not same(np.asarray(one).ravel(), np.asarray(ref[last]).reshape(1), refdt):
                    findings.append(mk(stage, tx, "element_read/" + label,
                                       {"index": last, "expected": repr(ref[last]), "observed": repr(one)[:80]}))
                dv = h.get_slice(tuple(0 for _ in shape), shape)
                if not dv.valid or not same(dv[:], ref, refdt):
                    findings.append(mk(stage, tx, "view_read/" + label, {"valid": dv.valid, "observed": repr(np.asarray(dv[:]).tolist())[:160],
                                                                        "expected": repr(ref.tolist())[:160]}))
                else:
                    arr = np.asarray(dv)
                    if not same(arr, ref, refdt) or (calibrated and arr.dtype != np.float64):
                        findings.append(mk(stage, tx, "view_asarray/" + label, {"observed": repr(arr.tolist())[:160],
                                                                              "expected": repr(ref.tolist())[:160], "dtype": str(arr.dtype)}))
                sub = tuple(max(1, s - 1) for s in shape)
                st_ = tuple(s - x for s, x in zip(shape, sub))
                dv2 = h.get_slice(st_, sub)
                want2 = ref[tuple(slice(a, a + b) for a, b in zip(st_, sub))]
                if not dv2.valid or not same(dv2[:], want2, refdt):
                    findings.append(mk(stage, tx, "subview_read/" + label, {"start": st_, "extent": sub, "valid": dv2.valid}))
                beyond = h.get_slice(tuple(0 for _ in shape), tuple(s + 1 for s in shape))
                if beyond.valid and np.size(beyond[:]) != 0:
                    findings.append(mk(stage, tx, "view_beyond_extent_valid/" + label, {"shape": shape}))
                rows = [np.asarray(r) for r in h]
                if len(rows) != shape[0] or not all(same(r.reshape(np.shape(ref[i])) if np.shape(ref[i]) else r.ravel()[:1].reshape(()), ref[i], refdt)
                                                    for i, r in enumerate(rows)):
                    findings.append(mk(stage, tx, "iteration/" + label, {"rows": len(rows)}))
        except Exception as exc:  # noqa
            import traceback
            findings.append(mk(stage, tx, "read_raises/" + label, {"exc": repr(exc)[:200], "tb": traceback.format_exc()[-400:]}))
    # compression of the stored dataset follows array > block > file
    try:
        comp = sess.A._h5group.group["data"].compression
        if (comp == "gzip") != sess.effective_compression():
            findings.append(mk(stage, tx, "compression", {"expected_gzip": sess.effective_compression(), "observed": comp,
                                                         "setting": c.compr}))
    except Exception:  # noqa
        pass


def mk(stage, tx, what, detail):
    return {"stage": stage, "action": tx["act"]["name"], "out": tx["act"]["out"], "what": what, "detail": detail,
            "replay": {"engine": "NixArray", "hist": tx["hist"], "act": tx["act"], "from": tx.get("from"), "to": tx.get("to"),
                       "opts": {k: v for k, v in _W.get("opts", {}).items() if k in ("seed", "mode")}}}


def block_raws(tx_state_after, act, state_before):
    """raw values (calibration configs) of the block a write stores, in block order."""
    return None


def replay_one(tx):
    opts = _W["opts"]
    nixio = _W["nixio"]
    _W["n"] += 1
    h = zlib.crc32(json.dumps(tx["act"], sort_keys=True).encode()) + 17 * len(tx["hist"])
    conc = ArrConc((opts["seed"] * 7919 + h) % (2 ** 31), opts["mode"])
    path = os.path.join(_W["dir"], "a%d.nix" % (_W["n"] % 4))
    sess = ArrSession(nixio, path, conc)
    res = {"findings": [], "truncated": 0, "calls": 0}
    rawmode = opts["mode"] == "calib"

    def raws_for(act, nw):
        # in calibration mode the written values are the specification's RawVal of stamp (nw, k)
        if not rawmode:
            return None
        shape = act.get("block") if act["name"] in ("Assign", "Append") else None
        return shape

    try:
        def do(act):
            if rawmode:
                # RawVal(st) = ((w*5 + k*3) % 7) - 3
                w = sess.nw + 1 if act["name"] != "Create" else 1
                if act["name"] == "Create":
                    n = int(np.prod(act["shape"]))
                elif act["name"] == "WriteAll":
                    n = int(np.prod(sess.A.shape))
                elif act["name"] in ("Assign", "Append") and act["out"] == "ok":
                    n = int(np.prod(act["block"]))
                else:
                    n = 0
                raws = [((w * 5 + k * 3) % 7) - 3 for k in range(n)]
                act = dict(act, _blockraw=raws)
                return sess.apply(act, raws)
            return sess.apply(act)

        for k_, a in enumerate(tx["hist"]):
            exc = do(a)
            res["calls"] += 1
            if (exc is None) != (a["out"] == "ok"):
                # reported here as well: the transition this call belongs to may have been skipped by the stride
                res["findings"].append(mk("outcome", {"hist": tx["hist"][:k_], "act": a},
                                          "accepted" if exc is None else "raised_" + type(exc).__name__,
                                          {"expected": a["out"], "observed": "ok" if exc is None else repr(exc)[:200],
                                           "in_history_at": k_ + 1}))
                res["truncated"] = 1
                return res
        pre = []
        check_state(sess, tx["from"], pre, "from", tx)
        if pre:
            if not tx["hist"]:
                res["findings"].extend(pre[:1])
            res["truncated"] = 1
            return res
        act = tx["act"]
        # a long-lived view onto the whole array as it is now (and one onto its first element), read once before the call
        oldviews = []
        fshape = tuple(tx["from"]["shape"]) if tx["from"]["made"] else ()
        if tx["from"]["made"] and fshape and all(fshape) and not rawmode:
            try:
                v_all = sess.A.get_slice(tuple(0 for _ in fshape), fshape)
                v_one = sess.B.get_slice(tuple(0 for _ in fshape), tuple(1 for _ in fshape))
                _ = v_all[:], v_one[:], v_all[-1]
                oldviews = [("whole", v_all, fshape), ("first", v_one, tuple(1 for _ in fshape))]
            except Exception:  # noqa
                oldviews = []
        exc = do(act)
        res["calls"] += 1
        if (exc is None) != (act["out"] == "ok"):
            res["findings"].append(mk("outcome", tx, "outcome",
                                      {"expected": act["out"], "observed": "ok" if exc is None else repr(exc)[:200],
                                       "conc": conc.describe()}))
            return res
        post = []
        check_state(sess, tx["to"], post, "state", tx)
        # the views taken before the call keep their window: they show the array's current content inside it
        tshape = tuple(tx["to"]["shape"]) if tx["to"]["made"] else ()
        if not post and oldviews and len(tshape) == len(fshape):
            ref = sess.expected_array(tx["to"])
            for vlabel, view, win in oldviews:
                if not all(w <= t for w, t in zip(win, tshape)):
                    continue          # the array shrank below the window: what the old view does then is left open
                want = ref[tuple(slice(0, w) for w in win)]
                try:
                    got = view[:]
                    if not same(got, want, conc.dtype):
                        post.append(mk("state", tx, "view_read/kept_view_" + vlabel,
                                       {"window": win, "array_shape": tshape, "expected": repr(want.tolist())[:160],
                                        "observed": repr(np.asarray(got).tolist())[:160]}))
                        break
                    last = view[-1]
                    wl = want[-1]
                    if not same(np.asarray(last).reshape(np.shape(wl) or (1,)), np.asarray(wl).reshape(np.shape(wl) or (1,)), conc.dtype):
                        post.append(mk("state", tx, "view_read/kept_view_%s_negative_index" % vlabel,
                                       {"window": win, "array_shape": tshape, "expected": repr(np.asarray(wl).tolist())[:120],
                                        "observed": repr(np.asarray(last).tolist())[:120]}))
                        break
                    tail = view[-1:]
                    if not same(tail, want[-1:], conc.dtype):
                        post.append(mk("state", tx, "view_read/kept_view_%s_open_slice" % vlabel,
                                       {"window": win, "array_shape": tshape, "observed": repr(np.asarray(tail).tolist())[:120]}))
                        break
                except Exception as exc2:  # noqa
                    post.append(mk("state", tx, "view_read/kept_view_%s_raises" % vlabel, {"exc": repr(exc2)[:160]}))
                    break
        if not post and tx["to"]["made"]:
            # close + reopen, read-only
            sess.nf.close()
            sess.nf = nixio.File.open(path, nixio.FileMode.ReadOnly)
            sess.blk = sess.nf.blocks["blk"]
            sess.A = sess.blk.data_arrays["arr"]
            sess.B = sess.blk.data_arrays[0]
            check_state(sess, tx["to"], post, "reopen", tx)
        for f in post[:3]:
            f["detail"]["conc"] = conc.describe()
            res["findings"].append(f)
        return res
    finally:
        sess.close()


def _worker_init(opts):
    _W["opts"] = opts
    _W["nixio"] = core.import_nixio()
    _W["dir"] = tempfile.mkdtemp(prefix="a-", dir=opts.get("rundir") or core.scratch_root())
    _W["n"] = 0


def _run_batch(batch):
    out = {"findings": [], "truncated": 0, "calls": 0, "n": 0, "errors": []}
    for tx in batch:
        try:
            r = replay_one(tx)
        except Exception:  # noqa
            import traceback
            out["errors"].append(traceback.format_exc()[-1500:])
            continue
        out["n"] += 1
        out["truncated"] += r["truncated"]
        out["calls"] += r["calls"]
        out["findings"].extend(r["findings"])
    return out


class ArrayRun:
    def __init__(self, cfg, seed, mode, stride=1, workers=None, timeout=3000):
        self.cfg, self.seed, self.mode, self.stride = cfg, seed, mode, stride
        self.nworkers = workers or max(2, core.NCPU - 1)
        self.timeout = timeout
        self.findings, self.errors = [], []
        self.stats = {"replayed": 0, "truncated": 0, "calls": 0, "exported": 0}
        self.per_action = {}
        self.samples = []
        self.res = None

    def run(self):
        ctx = mp.get_context("fork")
        rundir = tempfile.mkdtemp(prefix="nixverif-run-", dir=core.scratch_root())
        pool = ctx.Pool(self.nworkers, initializer=_worker_init,
                        initargs=({"seed": self.seed, "mode": self.mode, "rundir": rundir},))
        sem = threading.Semaphore(self.nworkers * 4)
        lock = threading.Lock()
        batch = []

        def done(out):
            with lock:
                self.findings.extend(out["findings"])
                self.stats["replayed"] += out["n"]
                self.stats["truncated"] += out["truncated"]
                self.stats["calls"] += out["calls"]
                self.errors.extend(out["errors"])
            sem.release()

        def fail(exc):
            with lock:
                self.errors.append(repr(exc))
            sem.release()

        def flush():
            if batch:
                sem.acquire()
                pool.apply_async(_run_batch, (list(batch),), callback=done, error_callback=fail)
                del batch[:]

        def cb(tx):
            if not (isinstance(tx, tuple) and tx and tx[0] == "TX"):
                return
            tx = tx[1]
            self.stats["exported"] += 1
            key = tx["act"]["name"] + ":" + tx["act"]["out"]
            self.per_action[key] = self.per_action.get(key, 0) + 1
            if self.stride > 1 and (self.stats["exported"] + self.seed) % self.stride:
                return
            if len(self.samples) < 3 and self.per_action[key] == 1 and len(tx["hist"]) >= 2:
                self.samples.append({"hist": tx["hist"], "act": tx["act"]})
            batch.append(tx)
            if len(batch) >= 40:
                flush()
        try:
            with core.Scratch("tlca") as tmp:
                self.res = core.run_tlc("MC_NixArray", self.cfg, tmp, workers=1, export_cb=cb, timeout=self.timeout,
                                        coverage=False)
            flush()
            pool.close()
            pool.join()
        finally:
            pool.terminate()
            shutil.rmtree(rundir, ignore_errors=True)
        if self.errors:
            raise core.MachineryError("array replay workers failed (%d): %s" % (len(self.errors), self.errors[0]))
        if self.res.violation is None and self.res.rc != 0:
            raise core.MachineryError("TLC failed rc=%s: %s" % (self.res.rc, "\n".join(self.res.log_tail[-15:])))
        return self


def key_of(f):
    what = f["what"]
    for label in ("/A", "/B", "/fresh"):
        if what.endswith(label):
            what = what[:-len(label)]
    return "%s/%s/%s/%s" % (f["action"], f["out"], f["stage"], what)


def replay_file(path, prop):
    with open(path) as fh:
        rec = json.load(fh)
    rp = rec["replay"]
    if not rp or rp.get("to") is None:
        print("replay file without specification states: re-run ./check %s" % prop)
        return 2
    with core.Scratch("arrr") as tmp:
        _worker_init(dict(rp["opts"], rundir=tmp))
        res = replay_one({"hist": rp["hist"], "act": rp["act"], "from": rp["from"], "to": rp["to"]})
    hit = False
    for f in res["findings"]:
        for k in (key_of(f), "stateful/" + key_of(f)):
            hit = hit or k == rec["key"]
        print("MISMATCH key=%s\n  %s" % (key_of(f), json.dumps(f["detail"], default=repr)[:700]))
    print("recorded key %s: %s" % (rec["key"], "REPRODUCED" if hit else "not reproduced"))
    if hit:
        print("VIOLATION property=%s replay=%s" % (prop, path))
    return 1 if hit else 0
