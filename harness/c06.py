# -*- coding: utf-8 -*-
"""
C06 - index expressions on arrays and views mean what they mean in NumPy.

NixIndex enumerates (shape, optional view window, index expression) vectors with the expected per-dimension
selection defined from first principles; TLC checks InSpace, InWindow, ErrorOnlyFromInts, WholeWindow, Composition
on every vector.  Each vector is executed three ways: the specification's expectation, the same expression on an
in-memory NumPy copy (these two must agree - that validates the specification against the property's own oracle),
and nixio (read; for a seeded share also assignment, comparing the whole underlying array afterwards).
"""
import os
import queue
import threading

import numpy as np

from . import core

NONE = 99


def pyexpr(e):
    out = []
    for c in e:
        if c["t"] == "int":
            out.append(c["i"])
        elif c["t"] == "slice":
            out.append(slice(None if c["a"] == NONE else c["a"], None if c["b"] == NONE else c["b"],
                             None if c["s"] == NONE else c["s"]))
        else:
            out.append(Ellipsis)
    return tuple(out)


def expr_class(e):
    kinds = []
    for c in e:
        if c["t"] == "int":
            kinds.append("negint" if c["i"] < 0 else "int")
        elif c["t"] == "slice":
            kinds.append("step" if c["s"] not in (NONE, 1) else "slice")
        else:
            kinds.append("ellipsis")
    return "+".join(sorted(set(kinds))) or "empty"


def run(tier, seed, verdict):
    nixio = core.import_nixio()
    quick = tier != "thorough"
    cfgs = (["MC_C06_r1_quick.cfg", "MC_C06_r2_quick.cfg", "MC_C06_r3_quick.cfg", "MC_C06_r4_quick.cfg"] if quick
            else ["MC_C06_r1.cfg", "MC_C06_r2.cfg", "MC_C06_r3_quick.cfg", "MC_C06_r4_quick.cfg"])
    strides = {"MC_C06_r2_quick.cfg": 3 if quick else 1, "MC_C06_r2.cfg": 7, "MC_C06_r1.cfg": 2}
    q = queue.Queue(maxsize=20000)
    results = {}
    counts = {"read": 0, "assign": 0, "error_vectors": 0, "invalid_views": 0, "view": 0, "array": 0}
    nontrivial = set()
    samples = []

    with core.Scratch("c06") as tmp:
        def producer(cfg):
            n = {"i": 0}
            stride = strides.get(cfg, 1)

            def cb(tx):
                if isinstance(tx, tuple) and tx and tx[0] == "TX":
                    n["i"] += 1
                    if stride > 1 and (n["i"] + seed) % stride:
                        return
                    q.put(tx[1])
            try:
                results[cfg] = core.run_tlc("MC_NixIndex", cfg, tmp, workers=1, export_cb=cb, timeout=3000,
                                            coverage=False, heap="3g")
            except Exception as exc:  # noqa
                results[cfg] = exc
            q.put(("done", cfg))

        threads = [threading.Thread(target=producer, args=(c,), daemon=True) for c in cfgs]
        for t in threads:
            t.start()

        nf = nixio.File.open(os.path.join(tmp, "idx.nix"), nixio.FileMode.Overwrite)
        blk = nf.create_block("b", "t")
        arrays = {}

        def arrays_for(shape):
            key = tuple(shape)
            if key not in arrays:
                ref = np.arange(int(np.prod(key)), dtype=np.int64).reshape(key) + 100
                nm = "r%d" % len(arrays)
                arrays[key] = (ref, blk.create_data_array(nm, "t", data=ref),
                               blk.create_data_array(nm + "w", "t", data=ref))
            return arrays[key]

        def judge(vec, k):
            cfg, e, r = vec["cfg"], vec["q"]["e"], vec["r"]
            shape = tuple(cfg["shape"])
            ref, da, daw = arrays_for(shape)
            ex = pyexpr(e)
            if len(ex) == 1 and k % 2:
                ex = ex[0]
            if len(samples) < 8 and k % 9973 == 1:
                samples.append(vec)
            nontrivial.add((shape, cfg["view"], repr(cfg["win"]), repr(ex)))
            ecls = "%s/rank%d/%s" % ("view" if cfg["view"] else "array", len(shape), expr_class(e))
            target, base, starts = da, ref, None
            if cfg["view"]:
                counts["view"] += 1
                starts = tuple(w["s"] for w in cfg["win"])
                exts = tuple(w["e"] for w in cfg["win"])
                valid = all(s + x <= n for s, x, n in zip(starts, exts, shape))
                try:
                    dv = da.get_slice(starts, exts)
                except IndexError:
                    dv = None
                if not valid:
                    counts["invalid_views"] += 1
                    if dv is not None:
                        try:
                            got = dv[ex]
                            if dv.valid or np.size(got) != 0:
                                verdict.violation("view/outside_not_refused/rank%d" % len(shape),
                                                  {"shape": shape, "start": starts, "extent": exts, "valid": dv.valid,
                                                   "read": repr(got)[:100]}, vec)
                        except IndexError:
                            pass
                        except Exception as exc:  # noqa
                            verdict.note("read of an invalid view raised %s" % type(exc).__name__, cls="invalidview/exc")
                    return
                if dv is None or not dv.valid:
                    verdict.violation("view/inside_refused/rank%d" % len(shape),
                                      {"shape": shape, "start": starts, "extent": exts}, vec)
                    return
                target = dv
                base = ref[tuple(slice(s, s + x) for s, x in zip(starts, exts))]
            else:
                counts["array"] += 1
            # the property's own oracle
            try:
                want = base[ex]
                np_ok = True
            except IndexError:
                want, np_ok = None, False
            if np_ok != r["ok"]:
                raise core.MachineryError("specification and NumPy disagree on %r %r: spec ok=%s" % (cfg, ex, r["ok"]))
            if np_ok:
                idxs = [d["idx"] for d in r["dims"]]
                sel = ref[np.ix_(*idxs)] if all(len(i) for i in idxs) else ref[np.ix_(*idxs)]
                keep = tuple(0 if d["drop"] else slice(None) for d in r["dims"])
                sel = sel[keep]
                if sel.shape != np.shape(want) or not np.array_equal(sel, want):
                    raise core.MachineryError("specification selection differs from NumPy for %r %r" % (cfg, ex))
            # the implementation: read
            counts["read"] += 1
            try:
                got = target[ex]
                got_ok = True
            except IndexError:
                got_ok = False
            except Exception as exc:  # noqa
                verdict.violation("%s/read_raises_%s" % (ecls, type(exc).__name__),
                                  {"config": cfg, "expr": repr(ex), "exc": repr(exc)[:200]}, vec)
                return
            if not np_ok:
                counts["error_vectors"] += 1
                if got_ok and np.size(got) != 0:
                    verdict.violation("%s/out_of_range_yields_data" % ecls,
                                      {"config": cfg, "expr": repr(ex), "observed": repr(got)[:120]}, vec)
                return
            if not got_ok:
                verdict.violation("%s/valid_index_refused" % ecls, {"config": cfg, "expr": repr(ex)}, vec)
                return
            want_arr = np.asarray(want)
            if want_arr.shape == ():
                want_arr = want_arr.reshape((1,))
            got_arr = np.asarray(got)
            if got_arr.shape != want_arr.shape or not np.array_equal(got_arr, want_arr):
                verdict.violation("%s/read_differs" % ecls,
                                  {"config": cfg, "expr": repr(ex), "expected": repr(want_arr)[:160],
                                   "observed": repr(got_arr)[:160]}, vec)
                return
            # assignment (seeded share)
            if (k + seed) % 4 == 0:
                counts["assign"] += 1
                mirror = ref.copy()
                mview = mirror if starts is None else mirror[tuple(slice(s, s + x) for s, x in zip(starts, exts))]
                block = -(np.arange(want_arr.size, dtype=np.int64).reshape(np.shape(want)) + 1)
                mview[ex] = block
                wtarget = daw if starts is None else daw.get_slice(starts, exts)
                try:
                    wtarget[ex] = block
                except Exception as exc:  # noqa
                    if want_arr.size:
                        verdict.violation("%s/assign_raises_%s" % (ecls, type(exc).__name__),
                                          {"config": cfg, "expr": repr(ex), "exc": repr(exc)[:200]}, vec)
                    daw[...] = ref
                    return
                after = daw[:]
                if not np.array_equal(after, mirror):
                    verdict.violation("%s/assign_differs" % ecls,
                                      {"config": cfg, "expr": repr(ex), "expected": repr(mirror)[:160],
                                       "observed": repr(after)[:160]}, vec)
                if want_arr.size:
                    daw[...] = ref

        done = 0
        k = 0
        while done < len(cfgs):
            item = q.get()
            if isinstance(item, tuple) and item[0] == "done":
                done += 1
                continue
            k += 1
            judge(item, k)
        nf.close()

    states = exports = 0
    cmds = []
    for cfg in cfgs:
        res = results[cfg]
        if isinstance(res, Exception):
            raise core.MachineryError("TLC run %s failed: %r" % (cfg, res))
        if res.violation is not None:
            verdict.violation("tlc/law_violated/" + cfg, {"tlc": res.violation, "trace": res.error_trace[:40]})
        elif res.rc != 0:
            raise core.MachineryError("TLC failed on %s rc=%s: %s" % (cfg, res.rc, "\n".join(res.log_tail[-10:])))
        states += res.distinct
        exports += res.exports
        cmds.append(res.cmd)
    # views over an array that changes (append / resize through another handle): the stateful part
    from . import arrayreplay as ar
    arun = ar.ArrayRun("MC_C01_quick.cfg", seed, "values", stride=4 if quick else 1).run()
    if arun.res.violation is not None:
        verdict.violation("tlc/NixArray/" + arun.res.violation[:80], {"tlc": arun.res.violation})
    for f in arun.findings:
        if f["what"].split("/")[0] in ("view_read", "subview_read", "view_beyond_extent_valid", "view_asarray",
                                        "region_read", "element_read"):
            verdict.violation("stateful/" + ar.key_of(f), f["detail"], f["replay"])
    counts["stateful_transitions_replayed"] = arun.stats["replayed"]
    states += arun.res.distinct
    exports += arun.stats["exported"]
    cmds.append(arun.res.cmd)
    if not counts["error_vectors"] or not counts["invalid_views"] or not counts["assign"]:
        raise core.MachineryError("vacuity: %r" % counts)
    coverage = {
        "states": states, "transitions": exports, "traces_validated_against_impl": counts["read"],
        "samples": samples, "exhaustive": all(s == 1 for s in strides.values()),
        "evaluations": k, "distinct_nontrivial": len(nontrivial),
        "rule": "TLC enumerates shapes (rank 1-4, zero-length axes included) x view windows (inside, touching the end, "
                "outside) x every expression built from the component pools (ints incl. negative and out of range, "
                "slices with start/stop beyond the extent on both sides, None components, steps, one ellipsis at any "
                "position, too many indices); distinct = distinct (shape, window, expression)",
        "counts": counts, "strides": strides, "configs": cfgs,
        "tlc_laws": ["InSpace", "InWindow", "ErrorOnlyFromInts", "WholeWindow", "Composition"],
        "checker_cmd": " ;; ".join(cmds),
    }
    assumptions = ["views and region reads are also taken after every step of the NixArray histories (append, resize, "
                   "region assignment through one of two long-lived handles) so that a window is judged against the "
                   "array's current extent",
                   "negative window starts and more indices than dimensions on a view are left open",
                   "element type int64; value fidelity per element type is C01's business",
                   "the specification's selection is cross-checked against NumPy on every vector (disagreement = machinery failure)"]
    return "model_checking", coverage, assumptions
