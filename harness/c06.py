# -*- coding: utf-8 -*-
"""
C06 - index expressions on arrays and views mean what they mean in NumPy.

NixIndex enumerates (shape, optional view window, index expression) vectors with the expected per-dimension
selection defined from first principles; TLC checks InSpace, InWindow, ErrorOnlyFromInts, WholeWindow, Composition
on every vector.  Each vector is executed three ways: the specification's expectation, the same expression on an
in-memory NumPy copy (these two must agree - that validates the specification against the property's own oracle),
and nixio (read; for a seeded share also assignment, comparing the whole underlying array afterwards).
"""
import os
import queue
import threading

import numpy as np

from . import core

NONE = 99


def pyexpr(e):
    out = []
    for c in e:
        if c["t"] == "int":
            out.append(c["i"])
        elif c["t"] == "slice":
            out.append(slice(None if c["a"] == NONE else c["a"], None if c["b"] == NONE else c["b"],
                             None if c["s"] == NONE else c["s"]))
        else:
            out.append(Ellipsis)
    return tuple(out)


def expr_class(e):
    kinds = []
    for c in e:
        if c["t"] == "int":
            kinds.append("negint" if c["i"] < 0 else "int")
        elif c["t"] == "slice":
            kinds.append("step" if c["s"] not in (NONE, 1) else "slice")
        else:
            kinds.append("ellipsis")
    return "+".join(sorted(set(kinds))) or "empty"


_W = {}


def init(opts):
    _W["opts"] = opts
    _W["nixio"] = nixio = core.import_nixio()
    d = os.path.join(opts["rundir"], "i%d" % os.getpid())
    os.makedirs(d, exist_ok=True)
    _W["nf"] = nixio.File.open(os.path.join(d, "idx.nix"), nixio.FileMode.Overwrite)
    _W["blk"] = _W["nf"].create_block("b", "t")
    _W["arrays"] = {}
    _W["k"] = 0


def arrays_for(shape):
    key = tuple(shape)
    arrays = _W["arrays"]
    if key not in arrays:
        blk = _W["blk"]
        ref = np.arange(int(np.prod(key)), dtype=np.int64).reshape(key) + 100
        nm = "r%d" % len(arrays)
        # the third array is calibrated (reads are 1 + 2 * (x - 0.5) = 2 * x, exact): assignment stores RAW values, so
        # after an assignment through it every element must read as twice the mirror's
        cal = blk.create_data_array(nm + "c", "t", data=ref)
        cal.polynom_coefficients = [1.0, 2.0]
        cal.expansion_origin = 0.5
        arrays[key] = (ref, blk.create_data_array(nm, "t", data=ref), blk.create_data_array(nm + "w", "t", data=ref), cal)
    return arrays[key]


def replay_one(vec):
    """One (shape, window, expression) vector: specification vs NumPy vs nixio (read, and a seeded share of assignments)."""
    _W["k"] += 1
    k = _W["k"]
    seed = _W["opts"]["seed"]
    res = {"findings": [], "read": 0, "assign": 0, "error_vectors": 0, "invalid_views": 0, "view": 0, "array": 0}

    def violation(key, detail):
        res["findings"].append({"key": key, "detail": detail, "replay": vec})

    cfg, e, r = vec["cfg"], vec["q"]["e"], vec["r"]
    shape = tuple(cfg["shape"])
    ref, da, daw, dawc = arrays_for(shape)
    ex = pyexpr(e)
    if len(ex) == 1 and k % 2:
        ex = ex[0]
    ecls = "%s/rank%d/%s" % ("view" if cfg["view"] else "array", len(shape), expr_class(e))
    target, base, starts = da, ref, None
    if cfg["view"]:
        res["view"] += 1
        starts = tuple(w["s"] for w in cfg["win"])
        exts = tuple(w["e"] for w in cfg["win"])
        valid = all(s + x <= n for s, x, n in zip(starts, exts, shape))
        try:
            dv = da.get_slice(starts, exts)
        except IndexError:
            dv = None
        if not valid:
            res["invalid_views"] += 1
            if dv is not None:
                try:
                    got = dv[ex]
                    if dv.valid or np.size(got) != 0:
                        violation("view/outside_not_refused/rank%d" % len(shape),
                                  {"shape": shape, "start": starts, "extent": exts, "valid": dv.valid, "read": repr(got)[:100]})
                except IndexError:
                    pass
                except Exception:  # noqa
                    pass
            return res
        if dv is None or not dv.valid:
            violation("view/inside_refused/rank%d" % len(shape), {"shape": shape, "start": starts, "extent": exts})
            return res
        target = dv
        base = ref[tuple(slice(s, s + x) for s, x in zip(starts, exts))]
    else:
        res["array"] += 1
    # the property's own oracle
    try:
        want = base[ex]
        np_ok = True
    except IndexError:
        want, np_ok = None, False
    if np_ok != r["ok"]:
        raise core.MachineryError("specification and NumPy disagree on %r %r: spec ok=%s" % (cfg, ex, r["ok"]))
    if np_ok:
        idxs = [d["idx"] for d in r["dims"]]
        sel = ref[np.ix_(*idxs)]
        keep = tuple(0 if d["drop"] else slice(None) for d in r["dims"])
        sel = sel[keep]
        if sel.shape != np.shape(want) or not np.array_equal(sel, want):
            raise core.MachineryError("specification selection differs from NumPy for %r %r" % (cfg, ex))
    res["read"] += 1
    try:
        got = target[ex]
        got_ok = True
    except IndexError:
        got_ok = False
    except Exception as exc:  # noqa
        violation("%s/read_raises_%s" % (ecls, type(exc).__name__), {"config": cfg, "expr": repr(ex), "exc": repr(exc)[:200]})
        return res
    if not np_ok:
        res["error_vectors"] += 1
        if got_ok and np.size(got) != 0:
            violation("%s/out_of_range_yields_data" % ecls, {"config": cfg, "expr": repr(ex), "observed": repr(got)[:120]})
        return res
    if not got_ok:
        violation("%s/valid_index_refused" % ecls, {"config": cfg, "expr": repr(ex)})
        return res
    want_arr = np.asarray(want)
    if want_arr.shape == ():
        want_arr = want_arr.reshape((1,))
    got_arr = np.asarray(got)
    if got_arr.shape != want_arr.shape or not np.array_equal(got_arr, want_arr):
        violation("%s/read_differs" % ecls, {"config": cfg, "expr": repr(ex), "expected": repr(want_arr)[:160],
                                             "observed": repr(got_arr)[:160]})
        return res
    if (k + seed) % 4 == 0:
        res["assign"] += 1
        calibrated = ((k + seed) // 4) % 2 == 1
        if calibrated:
            daw = dawc
            res["assign_calibrated"] = res.get("assign_calibrated", 0) + 1
        mirror = ref.copy()
        mview = mirror if starts is None else mirror[tuple(slice(s, s + x) for s, x in zip(starts, exts))]
        block = -(np.arange(want_arr.size, dtype=np.int64).reshape(np.shape(want)) + 1)
        mview[ex] = block
        wtarget = daw if starts is None else daw.get_slice(starts, exts)
        try:
            wtarget[ex] = block
        except Exception as exc:  # noqa
            if want_arr.size:
                violation("%s/assign_raises_%s" % (ecls, type(exc).__name__), {"config": cfg, "expr": repr(ex), "exc": repr(exc)[:200]})
            daw[...] = ref
            return res
        after = daw[:]
        if not np.array_equal(after, 2.0 * mirror if calibrated else mirror):
            violation("%s/assign_differs%s" % (ecls, "_calibrated_array" if calibrated else ""),
                      {"config": cfg, "expr": repr(ex), "expected": repr(2.0 * mirror if calibrated else mirror)[:160],
                       "observed": repr(after)[:160]})
        if want_arr.size:
            daw[...] = ref
    return res


def run(tier, seed, verdict):
    from . import runner
    quick = tier != "thorough"
    cfgs = (["MC_C06_r1_quick.cfg", "MC_C06_r2_quick.cfg", "MC_C06_r3_quick.cfg", "MC_C06_r4_quick.cfg"] if quick
            else ["MC_C06_r1.cfg", "MC_C06_r2_quick.cfg", "MC_C06_r3_quick.cfg", "MC_C06_r4_quick.cfg"])
    # (MC_C06_r2.cfg - every rank-2 expression over larger value sets - needs more heap than a loaded machine gives TLC:
    # the thorough tier runs the quick rank-2 configuration without stride instead)
    # ints (negative too) on both sides of an ellipsis standing for 0, 1 or 2 axes, axes of pairwise different length
    cfgs.append("MC_C06_ell.cfg")
    strides = {"MC_C06_r2_quick.cfg": 3 if quick else 1, "MC_C06_r2.cfg": 7, "MC_C06_r1.cfg": 2}
    runs = [runner.ExportRun("MC_NixIndex", c, seed, "harness.c06", stride=strides.get(c, 1), batch=400, heap="3g",
                             label=lambda v: "%s/rank%d" % ("view" if v["cfg"]["view"] else "array", len(v["cfg"]["shape"])))
            for c in cfgs]
    counts = {"read": 0, "assign": 0, "assign_calibrated": 0, "error_vectors": 0, "invalid_views": 0, "view": 0, "array": 0}
    results = {}
    samples = []
    k = 0
    for r_ in runs:
        r_.run()
        results[r_.cfg] = r_.res
        for f in r_.findings:
            verdict.violation(f["key"], f["detail"], f["replay"])
        for kk in counts:
            counts[kk] += int(r_.counters.get(kk, 0))
        k += r_.stats["replayed"]
        samples.extend(r_.samples[:2])
    nontrivial_n = counts["read"] + counts["invalid_views"]
    states = exports = 0
    cmds = []
    for cfg in cfgs:
        res = results[cfg]
        if res.violation is not None:
            verdict.violation("tlc/law_violated/" + cfg, {"tlc": res.violation, "trace": res.error_trace[:40]})
        elif res.rc != 0:
            raise core.MachineryError("TLC failed on %s rc=%s: %s" % (cfg, res.rc, "\n".join(res.log_tail[-10:])))
        states += res.distinct
        exports += res.exports
        cmds.append(res.cmd)
    # views over an array that changes (append / resize through another handle): the stateful part
    from . import arrayreplay as ar
    arun = ar.ArrayRun("MC_C01_quick.cfg", seed, "values", stride=4 if quick else 1).run()
    if arun.res.violation is not None:
        verdict.violation("tlc/NixArray/" + arun.res.violation[:80], {"tlc": arun.res.violation})
    for f in arun.findings:
        if f["what"].split("/")[0] in ("view_read", "subview_read", "view_beyond_extent_valid", "view_asarray",
                                        "region_read", "element_read"):
            verdict.violation("stateful/" + ar.key_of(f), f["detail"], f["replay"])
    counts["stateful_transitions_replayed"] = arun.stats["replayed"]
    states += arun.res.distinct
    exports += arun.stats["exported"]
    cmds.append(arun.res.cmd)
    if not counts["error_vectors"] or not counts["invalid_views"] or not counts["assign"] or not counts["assign_calibrated"]:
        raise core.MachineryError("vacuity: %r" % counts)
    coverage = {
        "states": states, "transitions": exports, "traces_validated_against_impl": counts["read"],
        "samples": samples, "exhaustive": all(s == 1 for s in strides.values()),
        "evaluations": k, "distinct_nontrivial": nontrivial_n,
        "rule": "TLC enumerates shapes (rank 1-4, zero-length axes included) x view windows (inside, touching the end, "
                "outside) x every expression built from the component pools (ints incl. negative and out of range, "
                "slices with start/stop beyond the extent on both sides, None components, steps, one ellipsis at any "
                "position, too many indices); every TLC vector is a distinct (shape, window, expression); non-trivial = vectors that "
                "reached a read or an invalid-window judgement",
        "counts": counts, "strides": strides, "configs": cfgs,
        "tlc_laws": ["InSpace", "InWindow", "ErrorOnlyFromInts", "WholeWindow", "Composition"],
        "checker_cmd": " ;; ".join(cmds),
    }
    assumptions = ["views and region reads are also taken after every step of the NixArray histories (append, resize, "
                   "region assignment through one of two long-lived handles) so that a window is judged against the "
                   "array's current extent",
                   "negative window starts and more indices than dimensions on a view are left open",
                   "element type int64; value fidelity per element type is C01's business",
                   "the specification's selection is cross-checked against NumPy on every vector (disagreement = machinery failure)"]
    return "model_checking", coverage, assumptions


def replay(path):
    import json
    with open(path) as fh:
        rec = json.load(fh)
    vec = rec["replay"]
    if not (isinstance(vec, dict) and "cfg" in vec):
        print("this replay file belongs to the stateful part (NixArray history): re-run ./check C06 to reproduce")
        return 2
    with core.Scratch("c06r") as tmp:
        init({"seed": rec.get("seed", 0), "rundir": tmp})
        hit = False
        for k in range(4):           # the assignment share and the scalar / tuple form depend on a counter
            res = replay_one(vec)
            for f in res["findings"]:
                print("MISMATCH key=%s\n  %s" % (f["key"], json.dumps(f["detail"], default=repr)[:700]))
                hit = hit or f["key"] == rec["key"]
            if hit:
                break
        _W["nf"].close()
    print("recorded key %s: %s" % (rec["key"], "REPRODUCED" if hit else "not reproduced"))
    if hit:
        print("VIOLATION property=C06 replay=%s" % path)
    return 1 if hit else 0
