# -*- coding: utf-8 -*-
"""
Generic Binding-A runner: TLC enumerates a configuration and prints one export line per transition / vector
(ACTION_CONSTRAINT Export); the lines are streamed into a pool of worker processes that execute them against
the real library.

A worker module provides
    init(opts)            called once per worker process (opts contains "seed", "rundir", ...)
    replay_one(tx) -> {"findings": [ {key, detail, replay, ...} ], <numeric counters> ...}
and optionally
    label(tx) -> str      class of the exported line for the per-action coverage table
"""
import importlib
import os
import sys
import multiprocessing as mp
import shutil
import tempfile
import threading
import traceback

from . import core

_W = {}


def _init(worker, opts):
    # the library prints diagnostics from some refused calls; workers report through return values only
    sys.stdout = open(os.devnull, "w")
    _W["mod"] = importlib.import_module(worker)
    _W["mod"].init(opts)


def _batch(batch):
    out = {"findings": [], "n": 0, "errors": [], "counters": {}}
    fn = _W["mod"].replay_one
    for tx in batch:
        try:
            r = fn(tx)
        except core.MachineryError as exc:
            out["errors"].append(str(exc))
            continue
        except Exception:  # noqa
            out["errors"].append(traceback.format_exc()[-1800:])
            continue
        out["n"] += 1
        for k, v in r.items():
            if k == "findings":
                out["findings"].extend(v)
            elif isinstance(v, (int, float)) and not isinstance(v, bool):
                out["counters"][k] = out["counters"].get(k, 0) + v
            elif isinstance(v, dict):
                d = out["counters"].setdefault(k, {})
                for kk, vv in v.items():
                    d[kk] = d.get(kk, 0) + vv
    return out


def default_label(tx):
    act = tx.get("act") if isinstance(tx, dict) else None
    if isinstance(act, dict):
        return "%s:%s" % (act.get("name"), act.get("out", "ok"))
    q = tx.get("q") if isinstance(tx, dict) else None
    if isinstance(q, dict):
        return str(q.get("kind", "vector"))
    return "vector"


class ExportRun:
    def __init__(self, module, cfg, seed, worker, opts=None, stride=1, accept=None, tlc_workers=1,
                 timeout=3000, simulate=None, depth=None, batch=40, heap=None, workers=None, max_tx=None,
                 label=None, tags=("TX",)):
        self.module, self.cfg, self.seed, self.worker = module, cfg, seed, worker
        self.opts = dict(opts or {})
        self.opts["seed"] = seed
        self.stride, self.accept = stride, accept
        self.tlc_workers, self.timeout = tlc_workers, timeout
        self.simulate, self.depth, self.batchsize, self.heap = simulate, depth, batch, heap
        self.nworkers = workers or max(2, core.NCPU - 1)
        self.max_tx = max_tx
        self.label = label or default_label
        self.tags = tags
        self.findings, self.errors = [], []
        self.stats = {"exported": 0, "replayed": 0, "skipped": 0}
        self.counters = {}
        self.per_action = {}
        self.samples = []
        self.res = None

    def _merge(self, out):
        self.findings.extend(out["findings"])
        self.stats["replayed"] += out["n"]
        self.errors.extend(out["errors"])
        for k, v in out["counters"].items():
            if isinstance(v, dict):
                d = self.counters.setdefault(k, {})
                for kk, vv in v.items():
                    d[kk] = d.get(kk, 0) + vv
            else:
                self.counters[k] = self.counters.get(k, 0) + v

    def run(self):
        ctx = mp.get_context("fork")
        rundir = tempfile.mkdtemp(prefix="nixverif-run-", dir=core.scratch_root())
        self.opts["rundir"] = rundir
        pool = ctx.Pool(self.nworkers, initializer=_init, initargs=(self.worker, self.opts))
        sem = threading.Semaphore(self.nworkers * 4)
        lock = threading.Lock()
        batch = []

        def done(out):
            with lock:
                self._merge(out)
            sem.release()

        def fail(exc):
            with lock:
                self.errors.append(repr(exc))
            sem.release()

        def flush():
            if batch:
                sem.acquire()
                pool.apply_async(_batch, (list(batch),), callback=done, error_callback=fail)
                del batch[:]

        budget = core.Budget()
        self.budget = budget

        def cb(tx):
            if not (isinstance(tx, tuple) and tx and tx[0] in self.tags):
                return
            tx = tx[-1]
            self.stats["exported"] += 1
            key = self.label(tx)
            self.per_action[key] = self.per_action.get(key, 0) + 1
            if self.accept is not None and not self.accept(tx):
                self.stats["skipped"] += 1
                return
            if self.stride > 1 and (self.stats["exported"] + self.seed) % self.stride:
                self.stats["skipped"] += 1
                return
            if self.max_tx and self.stats["exported"] - self.stats["skipped"] > self.max_tx:
                self.stats["skipped"] += 1
                return
            if budget.skip():
                self.stats["skipped"] += 1
                self.stats["skipped_by_budget"] = self.stats.get("skipped_by_budget", 0) + 1
                return
            if len(self.samples) < 3 and self.per_action[key] in (1, 7):
                self.samples.append(tx if "hist" not in tx else {"hist": tx["hist"], "act": tx["act"]})
            batch.append(tx)
            if len(batch) >= self.batchsize:
                flush()

        try:
            with core.Scratch("tlc") as tmp:
                self.res = core.run_tlc(self.module, self.cfg, tmp, workers=self.tlc_workers, export_cb=cb,
                                        timeout=self.timeout, coverage=False, simulate=self.simulate,
                                        depth=self.depth, seed=self.seed if self.simulate else None, heap=self.heap)
            flush()
            pool.close()
            pool.join()
        finally:
            pool.terminate()
            shutil.rmtree(rundir, ignore_errors=True)
        if self.errors:
            raise core.MachineryError("replay workers failed (%d): %s" % (len(self.errors), self.errors[0]))
        if self.res.violation is None and self.res.rc != 0 and not self.simulate:
            raise core.MachineryError("TLC failed rc=%s: %s" % (self.res.rc, "\n".join(self.res.log_tail[-15:])))
        return self

    def model_summary(self):
        r = self.res
        return {"module": self.module, "config": self.cfg, "states": r.distinct, "generated": r.generated,
                "depth": r.depth, "exported": self.stats["exported"], "replayed": self.stats["replayed"],
                "skipped_by_time_budget": self.stats.get("skipped_by_budget", 0),
                "stride": self.stride, "tlc_wall_s": round(r.wall, 1)}


def assemble(prop, verdict, runs, rule, assumptions, tlc_props, need=(), owns=None, extra=None):
    """Collects the results of several ExportRuns into verdict + evidence coverage (level model_checking)."""
    states = exported = replayed = 0
    per_action, counters, samples, cmds, models = {}, {}, [], [], []
    foreign = 0
    for r in runs:
        if r.res is None:
            r.run()
        if r.res.violation is not None:
            verdict.violation("tlc/%s/%s" % (r.cfg, r.res.violation[:90]),
                              {"tlc": r.res.violation, "trace": r.res.error_trace[:60], "config": r.cfg})
        for f in r.findings:
            if owns is None or owns(f):
                verdict.violation(f["key"], f["detail"], f.get("replay"))
            else:
                foreign += 1
                verdict.note("mismatch outside %s's facet: %s %s" % (prop, f["key"], str(f["detail"])[:160]),
                             cls="foreign/" + f["key"])
        states += r.res.distinct
        exported += r.stats["exported"]
        replayed += r.stats["replayed"]
        for k, v in r.per_action.items():
            per_action[k] = per_action.get(k, 0) + v
        for k, v in r.counters.items():
            if isinstance(v, dict):
                d = counters.setdefault(k, {})
                for kk, vv in v.items():
                    d[kk] = d.get(kk, 0) + vv
            else:
                counters[k] = counters.get(k, 0) + v
        samples.extend(r.samples[:2])
        cmds.append(r.res.cmd)
        models.append(r.model_summary())
    for n in need:
        if not per_action.get(n) and not counters.get(n):
            raise core.MachineryError("vacuity: %s never explored (%s)" % (n, sorted(per_action)))
    truncated = counters.get("truncated", 0)
    if replayed and truncated > 0.10 * replayed and not (extra or {}).get("allow_truncation") and not verdict.violations:
        raise core.MachineryError("vacuity: %d of %d replays truncated by an earlier divergence" % (truncated, replayed))
    coverage = {"states": states, "transitions": exported,
                "traces_validated_against_impl": replayed - truncated,
                "samples": samples or [{"note": "none recorded"}],
                "exhaustive": all(r.stride == 1 and not r.simulate and not r.max_tx and r.accept is None
                                  and not r.stats.get("skipped_by_budget") for r in runs),
                "evaluations": replayed, "distinct_nontrivial": replayed - truncated, "rule": rule,
                "counters": counters, "foreign_facet_mismatches": foreign,
                "per_action": dict(sorted(per_action.items())), "models": models,
                "tlc_properties": list(tlc_props), "checker_cmd": " ;; ".join(cmds)}
    if extra:
        coverage.update(extra)
    return "model_checking", coverage, list(assumptions)
