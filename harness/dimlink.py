# -*- coding: utf-8 -*-
"""
Binding for NixDimLink.tla (C05, dimension links; refused calls also serve C12): every exported transition is
replayed from an empty file; after the call every descriptor of the host array is read - ticks / labels, unit, label,
has_link, is_alias, the link's index / values / unit / label, and index_of through the (linked) ticks - through a
long-lived descriptor handle kept across calls, a second one, and fresh ones, and again after reopening; the targets
are changed through their own handles.
"""
import json
import os
import random
import zlib

import numpy as np

from . import core

_W = {}
LABELS = {0: None, 1: "label one", 2: "zweites Label µ"}
UNITS = {0: None, 1: "ms", 2: "mV"}
OWN_TICKS = {1: [1.0, 2.0, 3.0], 2: [0.5, 0.75, 4.0, 9.0]}
OWN_LABELS = {1: ["a", "b", "c"], 2: ["ü", "名前"]}


COLNAMES = ["cA", "cB"]


def target_data(t, rank, tok):
    base = float(10 * tok)
    if rank == 0:         # data frame: rows of (cA, cB), both columns ascending
        return np.array([[base, base + 100.0], [base + 1.0, base + 101.0], [base + 2.5, base + 102.5]])
    if rank == 1:
        return np.array([base, base + 1.0, base + 2.5])
    return np.array([[base, base + 1.0, base + 2.0], [base + 10.0, base + 11.0, base + 12.0]])


def vector(rank, tok, idx):
    data = target_data(None, rank, tok)
    if rank == 0:
        return [float(x) for x in data[:, idx[0]]]
    sel = tuple(slice(None) if i == -1 else i for i in idx)
    return [float(x) for x in data[sel]]


def expected(state, ranks):
    out = []
    for d in state["report"]:
        v = d["values"]
        if v["src"] == "vector":
            vals = vector(ranks[v["t"]], v["data"], v["idx"])
        elif d["k"] == "range":
            vals = OWN_TICKS.get(v["tok"], [])
        elif d["k"] == "set":
            vals = OWN_LABELS.get(v["tok"], [])
        else:
            vals = None
        label = COLNAMES[d["label"] - 10] if d["label"] >= 10 else LABELS[d["label"]]
        out.append({"kind": d["k"], "linked": d["linked"], "values": vals, "unit": UNITS[d["unit"]],
                    "label": label, "index": list(d["idx"]) if d["linked"] else None})
    tg = {}
    for t, r in state["targets"].items():
        if ranks[t] == 0:
            tg[t] = {"data": target_data(t, 0, r["data"]).tolist(), "unit": [UNITS[u] for u in r["unit"]], "label": None}
        else:
            tg[t] = {"data": target_data(t, ranks[t], r["data"]).tolist(), "unit": UNITS[r["unit"]], "label": LABELS[r["label"]]}
    return {"dims": out, "targets": tg}


def _safe(fn):
    try:
        return fn()
    except Exception as exc:  # noqa
        return "ERR:%s" % type(exc).__name__


def project_dim(dim):
    kind = {"sample": "sampled", "range": "range", "set": "set"}[dim.dimension_type.value]
    d = {"kind": kind, "linked": _safe(lambda: bool(dim.has_link))}
    if kind == "range":
        d["values"] = _safe(lambda: [float(x) for x in dim.ticks])
        d["unit"] = _safe(lambda: dim.unit or None)          # a frame column without unit reads as ""
        d["label"] = _safe(lambda: dim.label)
    elif kind == "set":
        d["values"] = _safe(lambda: [x if isinstance(x, str) else float(x) for x in dim.labels])
        d["unit"] = None
        d["label"] = _safe(lambda: dim.label)
    else:
        d["values"] = None
        d["unit"] = _safe(lambda: dim.unit)
        d["label"] = _safe(lambda: dim.label)
    if d["linked"] is True:
        lk = dim.dimension_link
        d["index"] = _safe(lambda: [int(lk.index)] if isinstance(lk.index, (int, np.integer)) else [int(x) for x in lk.index])
        # the link object itself must agree with what the descriptor reports
        lv = _safe(lambda: [float(x) for x in lk.values])
        if lv != d["values"]:
            d["link_values_differ"] = lv
        if kind == "range":
            if _safe(lambda: lk.unit or None) != d["unit"] or _safe(lambda: lk.label) != d["label"]:
                d["link_attrs_differ"] = True
            # positions are converted through the linked ticks
            if isinstance(d["values"], list) and d["values"]:
                got = _safe(lambda: int(dim.index_of(d["values"][-1])))
                if got != len(d["values"]) - 1:
                    d["index_of_last_tick"] = got
    else:
        d["index"] = None
    return d


def project(host, targets, dimhandles=None):
    dims = dimhandles if dimhandles is not None else _safe(lambda: list(host.dimensions))
    out = {"dims": [project_dim(d) for d in dims] if isinstance(dims, list) else dims, "targets": {}}
    for t, h in targets.items():
        if type(h).__name__ == "DataFrame":
            out["targets"][t] = {"data": _safe(lambda: [[float(r[c]) for c in COLNAMES] for r in h[:]]),
                                 "unit": _safe(lambda: [u or None for u in h.units]), "label": None}
            continue
        out["targets"][t] = {"data": _safe(lambda: np.asarray(h[:]).tolist()), "unit": _safe(lambda: h.unit),
                             "label": _safe(lambda: h.label)}
    return out


def _fresh_targets(blk, ranks):
    return {t: (blk.data_frames[t] if ranks[t] == 0 else blk.data_arrays[t]) for t in ranks}


def diff(exp, got, path=""):
    if isinstance(exp, dict) and isinstance(got, dict):
        for k in sorted(set(exp) | set(got)):
            if k not in exp or k not in got:
                return (path + "/" + k, exp.get(k, "<absent>"), got.get(k, "<absent>"))
            d = diff(exp[k], got[k], path + "/" + k)
            if d:
                return d
        return None
    if isinstance(exp, list) and isinstance(got, list):
        if len(exp) != len(got):
            return (path + "/#len", exp, got)
        for i, (a, b) in enumerate(zip(exp, got)):
            d = diff(a, b, "%s[]" % path)
            if d:
                return d
        return None
    return None if exp == got else (path, exp, got)


class Session:
    def __init__(self, nixio, path, ranks, seed, auto=True):
        self.nixio, self.path, self.ranks = nixio, path, ranks
        self.rnd = random.Random(seed)
        self.auto = auto
        self.now = 1000000000
        sess = self

        def fake_now():
            return sess.now
        import nixio.util as pkg
        import nixio.util.util as mod
        pkg.now_int = fake_now
        mod.now_int = fake_now
        self.nf = nixio.File.open(path, nixio.FileMode.Overwrite)
        self.blk = self.nf.create_block("blk", "t")
        self.targets = {}
        for t in sorted(ranks):
            if ranks[t] == 0:
                from collections import OrderedDict
                fr = self.blk.create_data_frame(t, "t", col_dict=OrderedDict((c, np.float64) for c in COLNAMES),
                                                data=[tuple(r) for r in target_data(t, 0, 1)])
                fr.units = [None, None]
                self.targets[t] = fr
                continue
            self.targets[t] = self.blk.create_data_array(t, "t", data=target_data(t, ranks[t], 1))
        self.host = self.blk.create_data_array("host", "t", data=np.zeros((3, 3)))
        self.host_b = self.blk.data_arrays["host"]
        self.kept = []          # long-lived descriptor handles, one per dimension (from creation)
        self.nf.auto_update_timestamps = auto

    def stamps(self):
        out = {"host": (self.host.created_at, self.host.updated_at)}
        for t, h in self.targets.items():
            out[t] = (h.created_at, h.updated_at)
        return out

    def dim(self, i):
        r = self.rnd.random()
        if r < 0.4 and i - 1 < len(self.kept):
            return self.kept[i - 1]
        host = self.host if r < 0.7 else self.host_b
        return host.dimensions[i - 1]

    def apply(self, act):
        n = act["name"]
        self.now += 7          # the clock moves between any two calls
        try:
            if n == "AppendDim":
                host = self.host if self.rnd.random() < 0.5 else self.host_b
                if act["k"] == "sampled":
                    d = host.append_sampled_dimension(0.5)
                elif act["k"] == "range":
                    d = host.append_range_dimension(ticks=OWN_TICKS[1])
                else:
                    d = host.append_set_dimension(labels=OWN_LABELS[1])
                self.kept.append(d)
            elif n == "AppendDimBad":
                host = self.host if self.rnd.random() < 0.5 else self.host_b
                why = act["why"]
                if why == "interval_text":
                    host.append_sampled_dimension("fast")
                elif why == "ticks_unsorted":
                    host.append_range_dimension(ticks=[3.0, 1.0, 2.0])
                elif why == "ticks_text":
                    host.append_range_dimension(ticks=["a", "b"])
                elif why == "labels_nonstring":
                    host.append_set_dimension(labels=[1, 2])
                elif act["k"] == "sampled":
                    host.append_sampled_dimension(0.5, **({"unit": 5} if why == "unit_type" else {"label": 5}))
                else:
                    host.append_range_dimension(ticks=OWN_TICKS[1], **({"unit": 5} if why == "unit_type" else {"label": 5}))
            elif n == "SetOwn":
                d = self.dim(act["i"])
                if act["k"] == "range":
                    d.ticks = OWN_TICKS[act["v"]]
                else:
                    d.labels = OWN_LABELS[act["v"]]
            elif n == "SetTicksUnordered":
                self.dim(act["i"]).ticks = [3.0, 1.0, 2.0]
            elif n == "SetAttr":
                d = self.dim(act["i"])
                if act["f"] == "lab":
                    d.label = LABELS[act["v"]]
                else:
                    d.unit = UNITS[act["v"]]
            elif n == "Link":
                d = self.dim(act["i"])
                if self.ranks[act["t"]] == 0:
                    d.link_data_frame(self.target(act["t"]), act["idx"][0])
                else:
                    d.link_data_array(self.target(act["t"]), list(act["idx"]))
            elif n == "Unlink":
                self.dim(act["i"]).remove_link()
            elif n == "WriteTarget":
                t = self.target(act["t"])
                if act["f"] == "data" and self.ranks[act["t"]] == 0:
                    t.write_rows([tuple(r) for r in target_data(act["t"], 0, act["v"])], [0, 1, 2])
                elif act["f"] == "data":
                    new = target_data(act["t"], self.ranks[act["t"]], act["v"])
                    how = self.rnd.randrange(3)
                    if how == 0:
                        t[:] = new
                    elif how == 1:
                        t.write_direct(new)
                    else:
                        # in place through a view onto the whole array
                        t.get_slice(tuple(0 for _ in new.shape), new.shape)[...] = new
                elif act["f"] == "unit":
                    t.unit = UNITS[act["v"]]
                else:
                    t.label = LABELS[act["v"]]
            elif n == "DeleteDims":
                (self.host if self.rnd.random() < 0.5 else self.host_b).delete_dimensions()
                self.kept = []
            else:
                raise core.MachineryError("unknown action %s" % n)
        except core.MachineryError:
            raise
        except Exception as exc:  # noqa
            return exc
        return None

    def target(self, t):
        if self.ranks[t] == 0:
            return self.targets[t] if self.rnd.random() < 0.5 else self.blk.data_frames[t]
        return self.targets[t] if self.rnd.random() < 0.5 else self.blk.data_arrays[t]

    def close(self):
        try:
            self.nf.close()
        except Exception:  # noqa
            pass


def init(opts):
    _W["opts"] = opts
    _W["nixio"] = core.import_nixio()
    _W["dir"] = os.path.join(opts["rundir"], "d%d" % os.getpid())
    os.makedirs(_W["dir"], exist_ok=True)
    _W["n"] = 0


def klass(act):
    n = act["name"]
    if n in ("SetOwn", "Link"):
        return "%s/%s" % (n, act["k"])
    if n == "SetAttr":
        return "SetAttr/%s/%s/%s" % (act["k"], act["f"], "linked" if act["linked"] else "own")
    if n == "WriteTarget":
        return "WriteTarget/%s" % act["f"]
    if n == "AppendDimBad":
        return "AppendDimBad/%s/%s" % (act["k"], act["why"])
    return n


def replay_one(tx):
    nixio, opts = _W["nixio"], _W["opts"]
    _W["n"] += 1
    ranks = opts["ranks"]
    h = zlib.crc32(json.dumps(tx["act"], sort_keys=True).encode()) + 7 * len(tx["hist"])
    seed = (opts["seed"] * 1000003 + h) % (2 ** 31)
    path = os.path.join(_W["dir"], "l%d.nix" % (_W["n"] % 3))
    auto = opts.get("auto", True) if opts.get("auto") is not None else bool(seed % 2)
    sess = Session(nixio, path, ranks, seed, auto=auto)
    act = tx["act"]
    res = {"findings": [], "truncated": 0, "calls": 0, "auto_off": 0 if auto else 1}

    def finding(stage, what, detail):
        owner = "C12" if act["out"] != "ok" and stage != "outcome" else "C05"
        res["findings"].append({"key": "dimlink/%s/%s/%s:%s" % (klass(act), act["out"], stage, what), "owner": owner,
                                "stage": stage, "detail": detail,
                                "replay": {"engine": "NixDimLink", "hist": tx["hist"], "act": act, "from": tx["from"],
                                           "to": tx["to"], "seed": opts["seed"], "ranks": ranks}})
    try:
        for k, a in enumerate(tx["hist"]):
            exc = sess.apply(a)
            res["calls"] += 1
            if (exc is None) != (a["out"] == "ok"):
                # reported here as well: the transition this call belongs to may have been skipped by the stride
                res["findings"].append({
                    "key": "dimlink/%s/%s/outcome:%s" % (klass(a), a["out"], "accepted" if exc is None else "raised_" + type(exc).__name__),
                    "owner": "C05", "stage": "outcome",
                    "detail": {"expected": a["out"], "observed": "ok" if exc is None else repr(exc)[:200], "in_history_at": k + 1},
                    "replay": {"engine": "NixDimLink", "hist": tx["hist"][:k], "act": a, "from": None, "to": None,
                               "seed": opts["seed"], "ranks": ranks}})
                res["truncated"] = 1
                return res
        if diff(expected(tx["from"], ranks), project(sess.host, sess.targets)):
            res["truncated"] = 1
            return res
        # the descriptor handles kept since creation deliver their values once before the call (whatever a handle
        # remembers about a linked vector is filled now)
        if sess.kept:
            project(sess.host, sess.targets, dimhandles=sess.kept)
        stamps0 = sess.stamps()
        exc = sess.apply(act)
        res["calls"] += 1
        if (exc is None) != (act["out"] == "ok"):
            finding("outcome", "accepted" if exc is None else "raised_" + type(exc).__name__,
                    {"expected": act["out"], "observed": "ok" if exc is None else repr(exc)[:200]})
            return res
        stamps1 = sess.stamps()
        if not auto and stamps1 != stamps0:
            res["findings"].append({"key": "dimlink/%s/timestamp_moved_with_auto_disabled" % klass(act), "owner": "C19",
                                    "stage": "time", "detail": {"before": stamps0, "after": stamps1},
                                    "replay": {"engine": "NixDimLink", "hist": tx["hist"], "act": act, "from": tx["from"],
                                               "to": tx["to"], "seed": opts["seed"], "ranks": ranks}})
        if any(stamps1[k][0] != stamps0[k][0] for k in stamps0):
            res["findings"].append({"key": "dimlink/%s/created_at_changed" % klass(act), "owner": "C19", "stage": "time",
                                    "detail": {"before": stamps0, "after": stamps1},
                                    "replay": {"engine": "NixDimLink", "hist": tx["hist"], "act": act, "from": tx["from"],
                                               "to": tx["to"], "seed": opts["seed"], "ranks": ranks}})
        exp_to = expected(tx["to"], ranks)
        views = [("host_A", project(sess.host, sess.targets)), ("host_B", project(sess.host_b, sess.targets)),
                 ("fresh", project(sess.blk.data_arrays["host"], _fresh_targets(sess.blk, ranks)))]
        if sess.kept and len(sess.kept) == len(exp_to["dims"]):
            views.append(("kept_descriptor_handles", project(sess.host, sess.targets, dimhandles=sess.kept)))
        for label, got in views:
            d = diff(exp_to, got)
            if d:
                finding("state", d[0], {"path": d[0], "expected": d[1], "observed": d[2], "read_through": label})
                return res
        for mode, label in ((nixio.FileMode.ReadOnly, "ro"), (nixio.FileMode.ReadWrite, "rw")):
            sess.nf.close()
            sess.nf = nixio.File.open(path, mode)
            blk = sess.nf.blocks["blk"]
            d = diff(exp_to, project(blk.data_arrays["host"], _fresh_targets(blk, ranks)))
            if d:
                finding("reopen-" + label, d[0], {"path": d[0], "expected": d[1], "observed": d[2]})
                return res
        return res
    finally:
        sess.close()


def replay_record(rec, prop):
    rp = rec["replay"]
    with core.Scratch("dlr") as tmp:
        init({"seed": rp["seed"], "rundir": tmp, "ranks": rp["ranks"]})
        res = replay_one({"hist": rp["hist"], "act": rp["act"], "from": rp["from"], "to": rp["to"]})
    hit = False
    for f in res["findings"]:
        print("MISMATCH key=%s\n  %s" % (f["key"], json.dumps(f["detail"], default=repr, ensure_ascii=False)[:800]))
        hit = hit or f["key"] == rec["key"]
    print("recorded key %s: %s" % (rec["key"], "REPRODUCED" if hit else "not reproduced"))
    if hit:
        print("VIOLATION property=%s replay=<file>" % prop)
    return 1 if hit else 0
