# -*- coding: utf-8 -*-
"""
C11, read-only part for the modules other than NixModel: the history of an exported transition is replayed in a
writable session, the file is closed and reopened READ-ONLY, and the transition's own action - an array write /
append / resize / calibration change, a property or section change, a data-frame write, a dimension-descriptor or
link change - is attempted.  It must raise iff it changes the state in a writable session (the specification's
`to` differs from `from`); afterwards the bytes on disk (sha256) must be what they were.
"""
import hashlib
import json
import os
import zlib

from . import core

_W = {}


def sha(path):
    with open(path, "rb") as fh:
        return hashlib.sha256(fh.read()).hexdigest()


def init(opts):
    _W["opts"] = opts
    _W["nixio"] = core.import_nixio()
    _W["dir"] = os.path.join(opts["rundir"], "ro%d" % os.getpid())
    os.makedirs(_W["dir"], exist_ok=True)
    _W["n"] = 0
    mod = opts["module"]
    if mod == "array":
        from . import arrayreplay as ar
        ar._W.update({"opts": {"seed": opts["seed"], "mode": "values"}, "nixio": _W["nixio"], "dir": _W["dir"], "n": 0})


def _changes(tx, mod):
    if mod in ("meta", "frame"):
        f, t = tx["from"], tx["to"]
        keys = ("props", "subs") if mod == "meta" else ("made", "cols", "cells", "units")
        return any(f.get(k) != t.get(k) for k in keys)
    if mod == "dimlink":
        return tx["from"] != tx["to"]
    f, t = tx["from"], tx["to"]
    return any(f.get(k) != t.get(k) for k in ("shape", "cells", "coef", "origin", "made"))


def replay_one(tx):
    nixio, opts = _W["nixio"], _W["opts"]
    mod = opts["module"]
    _W["n"] += 1
    path = os.path.join(_W["dir"], "ro%d.nix" % (_W["n"] % 3))
    h = zlib.crc32(json.dumps(tx["act"], sort_keys=True).encode()) + 11 * len(tx["hist"])
    seed = (opts["seed"] * 1000003 + h) % (2 ** 31)
    res = {"findings": [], "truncated": 0, "attempts": 0, "must_fail": 0}
    act = tx["act"]
    RO = nixio.FileMode.ReadOnly

    def finding(what, detail):
        res["findings"].append({"key": "readonly/%s/%s/%s" % (mod, act["name"], what), "owner": "C11", "detail": detail,
                                "replay": {"engine": "romut", "module": mod, "hist": tx["hist"], "act": act,
                                           "from": tx["from"], "to": tx["to"], "seed": opts["seed"]}})
    sess = None
    try:
        if mod == "array":
            from . import arrayreplay as ar
            conc = ar.ArrConc((opts["seed"] * 7919 + h) % (2 ** 31), "values")
            sess = ar.ArrSession(nixio, path, conc)
            apply_ = lambda a: sess.apply(a)  # noqa
        elif mod == "meta":
            from . import c10
            sess = c10.Session(nixio, path, c10.Conc(seed), seed)
            apply_ = lambda a: sess.apply(a)  # noqa
        elif mod == "frame":
            from . import c16
            sess = c16.Session(nixio, path, c16.Conc(seed), seed)
            states = c16.spec_states(tx["hist"])
            apply_ = None
        else:
            from . import dimlink
            sess = dimlink.Session(nixio, path, opts["ranks"], seed)
            apply_ = lambda a: sess.apply(a)  # noqa
        for k, a in enumerate(tx["hist"]):
            if mod == "frame":
                exc = sess.apply(a, states[k])
                if a["out"] == "ok":
                    sess.state = states[k]
            else:
                exc = apply_(a)
            if (exc is None) != (a["out"] == "ok"):
                res["truncated"] = 1
                return res
        sess.nf.close()
        before = sha(path)
        nf = nixio.File.open(path, RO)
        sess.nf = nf
        # re-bind the session's handles to the read-only file
        if mod == "array":
            sess.blk = nf.blocks["blk"]
            if tx["from"]["made"]:
                sess.A = sess.blk.data_arrays["arr"]
                sess.B = sess.blk.data_arrays[0]
        elif mod == "meta":
            sess.sec = nf.sections["root"]
            sess.sec_b = nf.sections[0]
            sess.kept = {}
        elif mod == "frame":
            sess.blk = nf.blocks["blk"]
            if tx["from"]["made"]:
                sess.A = sess.blk.data_frames["frame"]
                sess.B = sess.blk.data_frames[0]
            sess.state = tx["from"]
        else:
            sess.blk = nf.blocks["blk"]
            sess.host = sess.blk.data_arrays["host"]
            sess.host_b = sess.blk.data_arrays["host"]
            sess.targets = dimlink._fresh_targets(sess.blk, opts["ranks"])
            sess.kept = []
        must_fail = act["out"] == "ok" and _changes(tx, mod)
        exc = sess.apply(act, tx["to"]) if mod == "frame" else apply_(act)
        res["attempts"] = 1
        res["must_fail"] = 1 if must_fail else 0
        if must_fail and exc is None:
            finding("mutator_accepted", {"call": act})
        try:
            sess.nf.close()
        except Exception:  # noqa
            pass
        if sha(path) != before:
            finding("bytes_changed", {"call": act, "raised": None if exc is None else type(exc).__name__})
        return res
    finally:
        try:
            if sess is not None:
                sess.nf.close()
        except Exception:  # noqa
            pass
