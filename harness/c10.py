# -*- coding: utf-8 -*-
"""
C10 - metadata properties hold typed value lists; sections behave like ordered dicts.

NixMeta.tla models one section (properties with fixed dtype + value token lists + optional attributes,
subsections); TLC checks TypeOK, Homogeneous, DictConsistent, RefusedUnchanged, DtypeFixed, ExtendIsConcat,
WriteFrame and exports every transition.  Each is replayed from an empty file: history, then the action, then the
section is projected through three handles per property (kept from creation, second long-lived, fresh) and through
the dictionary interface, and again after reopening read-only and read-write.
"""
import json
import os
import random
import zlib

import numpy as np

from . import core
from . import runner

_W = {}

NAME_POOLS = [
    {"n1": "alpha", "n2": "beta", "n3": "gamma"},
    {"n1": "zeta", "n2": "mu", "n3": "alpha"},
    {"n1": "Zürich Å", "n2": "名前", "n3": "não"},
    {"n1": "0123456789abcdef0123456789abcdef", "n2": "6fa459ea-ee8a-3ca4-894e-db77e160355e", "n3": "x"},
    {"n1": "L" * 400, "n2": ". a.b ", "n3": "q"},
]
VALUE_POOLS = {
    "bool": [(True, False), (np.bool_(True), np.bool_(False)), (False, True)],
    "int": [(1, 0), (2 ** 63 - 1, -2 ** 63), (42, -7), (np.int64(3), np.int64(-3))],
    "float": [(1.5, -2.25), (float("nan"), float("inf")), (1.0, -0.0), (1.7976931348623157e308, 5e-324),
              (np.float64(0.1), float("-inf"))],
    "text": [("a", "b"), ("", "ünï çødé ✓"), ("x" * 300, " "), ("1", "True"), ("名前", "new\nline")],
}
ATTR_VALUES = {
    "unit": {1: ("mV", "mV"), 2: (" k Hz", "kHz")},
    "definition": {1: ("a definition", "a definition"), 2: ("ünï çødé", "ünï çødé")},
    "uncertainty": {1: (0.5, 0.5), 2: (3, 3.0)},
    "reference": {1: ("ref-1", "ref-1"), 2: ("", "")},
    "dependency": {1: ("dep", "dep"), 2: ("другой", "другой")},
    "dependency_value": {1: ("dv", "dv"), 2: ("x" * 200, "x" * 200)},
    "value_origin": {1: ("origin", "origin"), 2: ("o2", "o2")},
}
ODML = ["boolean", "int", "float", "string", "text", "url", "person", "datetime", "date", "time"]


class Conc:
    def __init__(self, seed):
        self.seed = seed
        rnd = random.Random(seed)
        self.names = NAME_POOLS[seed % len(NAME_POOLS)]
        self.vals = {t: rnd.choice(VALUE_POOLS[t]) for t in VALUE_POOLS}
        self.container = rnd.choice(["list", "list", "tuple", "ndarray"])

    def name(self, tok):
        return self.names[tok]

    def value(self, tok):
        return self.vals[tok[0]][tok[1] - 1]

    def values(self, cand):
        return [self.value(t) for t in cand]

    def describe(self):
        return {"seed": self.seed, "names": self.names, "values": {k: [repr(x) for x in v] for k, v in self.vals.items()},
                "container": self.container}


def classify(v):
    if isinstance(v, (bool, np.bool_)):
        return "bool"
    if isinstance(v, (int, np.integer)):
        return "int"
    if isinstance(v, (float, np.floating)):
        return "float"
    if isinstance(v, str):
        return "text"
    return "other:" + type(v).__name__


def canon(v):
    c = classify(v)
    if c == "bool":
        return [c, bool(v)]
    if c == "int":
        return [c, int(v)]
    if c == "float":
        return [c, repr(float(v))]
    if c == "text":
        return [c, str(v)]
    return [c, repr(v)]


def dtype_class(dt):
    import h5py
    try:
        if h5py.check_string_dtype(np.dtype(dt)) is not None:
            return "text"
    except Exception:  # noqa
        pass
    try:
        dt = np.dtype(dt)
    except Exception:  # noqa
        return "other:%r" % (dt,)
    if dt == np.bool_:
        return "bool"
    if dt == np.int64:
        return "int"
    if dt == np.float64:
        return "float"
    if dt.kind in "OUS":
        return "text"
    return "other:%s" % dt


def _safe(fn):
    try:
        return fn()
    except Exception as exc:  # noqa
        return "ERR:%s" % type(exc).__name__


def expected(state, conc, names):
    props = []
    for p in state["props"]:
        attr = p["attr"] if isinstance(p["attr"], dict) else {}
        a = {}
        for k, v in attr.items():
            if k == "odml":
                a[k] = None if v == 0 else ODML[v - 1]
            else:
                a[k] = None if v == 0 else ATTR_VALUES[k][v][1]
        props.append({"name": conc.name(p["name"]), "dtype": p["dtype"],
                      "values": [canon(conc.value(t)) for t in p["vals"]], "attr": a})
    tree = {"props": props, "subs": [conc.name(s) for s in state["subs"]]}
    d = state.get("dict")
    if d is not None:
        dd = {"items": [[k, conc.name(n)] for k, n in d["items"]], "len": d["len"], "has": {}, "get": {}}
        for k in names:
            dd["has"][conc.name(k)] = d["has"][k]
            g = d["get"][k]
            if g["what"] == "values":
                vals = [canon(conc.value(t)) for t in g["vals"]]
                dd["get"][conc.name(k)] = vals[0] if len(vals) == 1 else vals
            else:
                dd["get"][conc.name(k)] = g["what"]
        tree["dict"] = dd
    return tree


def project_prop(p, attrnames):
    d = {"name": _safe(lambda: p.name), "dtype": _safe(lambda: dtype_class(p.data_type)),
         "values": _safe(lambda: [canon(v) for v in p.values]), "attr": {}}
    for a in attrnames:
        if a == "odml":
            d["attr"][a] = _safe(lambda: None if p.odml_type is None else p.odml_type.value)
        else:
            d["attr"][a] = _safe(lambda a=a: (lambda v: float(v) if isinstance(v, (float, np.floating)) else v)(getattr(p, a)))
    return d


def project(sec, attrnames, names=None, conc=None, with_dict=True):
    tree = {"props": _safe(lambda: [project_prop(p, attrnames) for p in sec.props]),
            "subs": _safe(lambda: [s.name for s in sec.sections])}
    if with_dict and names is not None:
        dd = {"items": _safe(lambda: [["property" if hasattr(v, "values") else "section", k] for k, v in sec.items()]),
              "len": _safe(lambda: len(sec)), "has": {}, "get": {}}
        for k in names:
            cn = conc.name(k)
            dd["has"][cn] = _safe(lambda: cn in sec)

            def get():
                try:
                    v = sec[cn]
                except KeyError:
                    return "KeyError"
                if hasattr(v, "props"):
                    return "section"
                if isinstance(v, list):
                    return [canon(x) for x in v]
                return canon(v)
            dd["get"][cn] = _safe(get)
        tree["dict"] = dd
    return tree


def diff(exp, got, path=""):
    if isinstance(exp, dict) and isinstance(got, dict):
        for k in sorted(set(exp) | set(got)):
            if k not in exp or k not in got:
                return (path + "/" + k, exp.get(k, "<absent>"), got.get(k, "<absent>"))
            d = diff(exp[k], got[k], path + "/" + k)
            if d:
                return d
        return None
    if isinstance(exp, list) and isinstance(got, list):
        if len(exp) != len(got):
            return (path + "/#len", exp, got)
        for i, (a, b) in enumerate(zip(exp, got)):
            d = diff(a, b, "%s[%d]" % (path, i))
            if d:
                return d
        return None
    return None if exp == got else (path, exp, got)


class Session:
    def __init__(self, nixio, path, conc, seed):
        self.nixio, self.path, self.conc = nixio, path, conc
        self.rnd = random.Random(seed)
        self.nf = nixio.File.open(path, nixio.FileMode.Overwrite)
        self.sec = self.nf.create_section("root", "t")
        self.sec_b = self.nf.sections["root"]
        self.kept = {}      # name token -> [handle from creation, second long-lived handle]

    def section(self):
        return self.sec if self.rnd.random() < 0.5 else self.sec_b

    def prop(self, n):
        hs = self.kept.get(n)
        r = self.rnd.random()
        if hs and r < 0.4 and hs[0] is not None:
            return hs[0]
        if hs and r < 0.8 and hs[1] is not None:
            return hs[1]
        return self.section().props[self.index_of(n)]

    def index_of(self, n):
        cn = self.conc.name(n)
        for i, p in enumerate(self.sec.props):
            if p.name == cn:
                return i
        raise KeyError(cn)

    def pack(self, cand, allow_scalar=False):
        vals = self.conc.values(cand)
        types = set(t[0] for t in cand)
        # a bare scalar instead of a one-element list (not for "": an empty string is an empty sequence to the API)
        if allow_scalar and len(vals) == 1 and vals[0] != "" and self.rnd.random() < 0.3:
            return vals[0]
        if self.conc.container == "tuple":
            return tuple(vals)
        if self.conc.container == "ndarray" and len(types) == 1 and "text" not in types:
            return np.array(vals)
        if len(types) > 1 and self.rnd.random() < 0.4:
            # mixed content handed in as a NumPy object array
            return np.array(vals, dtype=object)
        return list(vals)

    def apply(self, act):
        nixio = self.nixio
        DT = nixio.DataType
        name = act["name"]
        try:
            if name == "CreateProp":
                cn = self.conc.name(act["n"])
                if act["via"] == "dict":
                    sec = self.section()
                    sec[cn] = list(self.conc.values(act["c"]))
                    h = None
                else:
                    h = self.section().create_property(cn, self.pack(act["c"], allow_scalar=True))
                if act["out"] == "ok":
                    self.kept[act["n"]] = [h, self.sec_b.props[self.index_of(act["n"])]]
            elif name == "CreateTyped":
                t = {"bool": DT.Bool, "int": DT.Int64, "float": DT.Double, "text": DT.String}[act["t"]]
                h = self.section().create_property(self.conc.name(act["n"]), t)
                self.kept[act["n"]] = [h, self.sec_b.props[self.index_of(act["n"])]]
            elif name == "CreateEmpty":
                self.section().create_property(self.conc.name(act["n"]), [] if self.rnd.random() < 0.5 else None)
            elif name == "Assign":
                if act["via"] == "dict":
                    self.section()[self.conc.name(act["n"])] = list(self.conc.values(act["c"]))
                else:
                    self.prop(act["n"]).values = self.pack(act["c"], allow_scalar=True)
            elif name == "Extend":
                self.prop(act["n"]).extend_values(self.pack(act["c"]))
            elif name == "Clear":
                p = self.prop(act["n"])
                if act["how"] == "delete_values":
                    p.delete_values()
                elif act["how"] == "none":
                    p.values = None
                else:
                    p.values = []
            elif name == "DeleteProp":
                cn = self.conc.name(act["n"])
                sec = self.section()
                if act["via"] == "dict":
                    del sec[cn]
                else:
                    how = self.rnd.randrange(4) if act["out"] == "ok" else 0
                    if how == 0:
                        del sec.props[cn]
                    elif how == 1:
                        del sec.props[self.index_of(act["n"])]
                    elif how == 2:
                        del sec.props[sec.props[self.index_of(act["n"])].id]
                    else:
                        del sec.props[sec.props[self.index_of(act["n"])]]
                self.kept.pop(act["n"], None)
            elif name == "SetAttr":
                v = None if act["v"] == 0 else ATTR_VALUES[act["a"]][act["v"]][0]
                setattr(self.prop(act["n"]), act["a"], v)
            elif name == "SetOdml":
                self.prop(act["n"]).odml_type = nixio.property.OdmlType(ODML[act["ot"] - 1])
            elif name == "CreateSub":
                self.section().create_section(self.conc.name(act["n"]), "t")
            elif name == "DeleteSub":
                del self.section().sections[self.conc.name(act["n"])]
            else:
                raise core.MachineryError("unknown action %s" % name)
        except core.MachineryError:
            raise
        except Exception as exc:  # noqa
            return exc
        return None

    def close(self):
        try:
            self.nf.close()
        except Exception:  # noqa
            pass


def init(opts):
    _W["opts"] = opts
    _W["nixio"] = core.import_nixio()
    _W["dir"] = os.path.join(opts["rundir"], "w%d" % os.getpid())
    os.makedirs(_W["dir"], exist_ok=True)
    _W["n"] = 0


def key_of(tx, stage, what):
    a = tx["act"]
    return "%s/%s/%s/%s:%s" % (a["name"], a.get("via", a.get("how", a.get("a", "-"))), a["out"], stage, what)


FAMILY = {"refused:TypeError": TypeError, "refused:KeyError": (KeyError, IndexError), "refused:DuplicateName": None}


def replay_one(tx):
    nixio = _W["nixio"]
    opts = _W["opts"]
    _W["n"] += 1
    h = zlib.crc32(json.dumps(tx["act"], sort_keys=True).encode()) + 31 * len(tx["hist"])
    seed = (opts["seed"] * 1000003 + h) % (2 ** 31)
    conc = Conc(seed)
    names = opts["names"]
    attrnames = opts["attrs"]
    res = {"findings": [], "truncated": 0, "calls": 0, "reopens": 0}
    path = os.path.join(_W["dir"], "m%d.nix" % (_W["n"] % 3))
    sess = Session(nixio, path, conc, seed)
    act = tx["act"]

    def finding(stage, what, detail):
        res["findings"].append({"key": key_of(tx, stage, what), "stage": stage, "out": act["out"], "detail": detail,
                                "replay": {"hist": tx["hist"], "act": act, "from": tx["from"], "to": tx["to"],
                                           "conc": conc.describe(), "opts": {k: opts[k] for k in ("seed", "names", "attrs")}}})
    try:
        for k, a in enumerate(tx["hist"]):
            exc = sess.apply(a)
            res["calls"] += 1
            if (exc is None) != (a["out"] == "ok"):
                # reported here as well: the transition this call belongs to may have been skipped by the stride
                res["findings"].append({
                    "key": key_of({"act": a}, "outcome", "accepted" if exc is None else "raised_" + type(exc).__name__),
                    "stage": "outcome", "out": a["out"],
                    "detail": {"expected": a["out"], "observed": "ok" if exc is None else repr(exc)[:200], "in_history_at": k + 1},
                    "replay": {"hist": tx["hist"][:k], "act": a, "from": None, "to": None, "conc": conc.describe(),
                               "opts": {kk: opts[kk] for kk in ("seed", "names", "attrs")}}})
                res["truncated"] = 1
                return res
        exp_from = expected(tx["from"], conc, names)
        got = project(sess.sec, attrnames, with_dict=False)
        if diff(exp_from, got):
            res["truncated"] = 1
            return res
        exc = sess.apply(act)
        res["calls"] += 1
        want_ok = act["out"] == "ok"
        if (exc is None) != want_ok:
            finding("outcome", "accepted" if exc is None else "raised_" + type(exc).__name__,
                    {"expected": act["out"], "observed": "ok" if exc is None else repr(exc)[:200],
                     "values": repr(conc.values(act["c"]))[:200] if "c" in act else None})
            return res
        if exc is not None:
            fam = FAMILY.get(act["out"])
            if fam is None and act["out"] == "refused:DuplicateName":
                fam = nixio.exceptions.DuplicateName
            if fam is not None and not isinstance(exc, fam):
                finding("outcome", "wrong_error_" + type(exc).__name__, {"expected": act["out"], "observed": repr(exc)[:200]})
        exp_to = expected(tx["to"], conc, names)
        # through the session's section handle, the second long-lived one and a fresh one
        for label, sec in (("A", sess.sec), ("B", sess.sec_b), ("fresh", sess.nf.sections["root"])):
            got = project(sec, attrnames, names, conc)
            d = diff(exp_to, got)
            if d:
                finding("state", generic(d[0]), {"path": d[0], "expected": d[1], "observed": d[2], "handle": label})
                return res
        # long-lived property handles must see the same values
        for ntok, hs in sess.kept.items():
            want = [p for p in exp_to["props"] if p["name"] == conc.name(ntok)]
            for label, hnd in zip(("created", "looked_up"), hs):
                if hnd is None or not want:
                    continue
                got = project_prop(hnd, attrnames)
                d = diff(want[0], got)
                if d:
                    finding("state", "stale_handle" + generic(d[0]),
                            {"path": d[0], "expected": d[1], "observed": d[2], "handle": label})
                    return res
        # close + reopen
        for mode, label in ((nixio.FileMode.ReadOnly, "ro"), (nixio.FileMode.ReadWrite, "rw")):
            sess.nf.close()
            sess.nf = nixio.File.open(path, mode)
            res["reopens"] += 1
            got = project(sess.nf.sections["root"], attrnames, names, conc)
            d = diff(exp_to, got)
            if d:
                finding("reopen-" + label, generic(d[0]), {"path": d[0], "expected": d[1], "observed": d[2]})
                return res
        return res
    finally:
        sess.close()


def generic(path):
    import re
    path = re.sub(r"(/dict/(get|has))/.*", r"\1", path)        # the dictionary key is a concrete name
    return re.sub(r"\[\d+\]", "[]", path)


def owner_of(f):
    """refused call that changed the state -> C12; everything else here is C10."""
    if f["out"] != "ok" and f["stage"] in ("state", "reopen-ro", "reopen-rw"):
        return "C12"
    return "C10"


def make_runs(tier, seed):
    quick = tier != "thorough"
    names2 = ["n1", "n2"]
    runs = [runner.ExportRun("MC_NixMeta", "MC_C10_quick.cfg" if quick else "MC_C10.cfg", seed, "harness.c10",
                             opts={"names": names2, "attrs": []}, stride=6 if quick else 4),
            runner.ExportRun("MC_NixMeta", "MC_C10_attrs.cfg", seed + 1, "harness.c10",
                             opts={"names": ["n1"], "attrs": ["unit", "definition", "uncertainty", "reference", "dependency",
                                                              "dependency_value", "value_origin", "odml"]},
                             stride=3 if quick else 1)]
    return runs


def run(tier, seed, verdict):
    runs = make_runs(tier, seed)
    level, cov, assumptions = _run_a(tier, seed, verdict, runs)
    # Binding B: executions recorded from the library, over a larger universe, judged by TLC (NixMetaTrace.tla)
    from . import tracemeta
    quick = tier != "thorough"
    info = tracemeta.run_binding_b(seed, 120 if quick else 1500, 30 if quick else 40, verdict)
    cov["recorded_traces_validated_by_tlc"] = info
    cov["traces_validated_against_impl"] += info["traces"] if info["accepted"] else 0
    cov["states"] += info["tlc_states"]
    cov["rule"] += "; Binding B: a seeded random driver over 6 names / lists up to 4 per call / 30-40 calls per session (faults " \
                   "with probability 1/4) records call, outcome class and the complete projected state (value tokens by " \
                   "inverse concretisation) after every call; NixMetaTrace.tla has to explain every line with the action " \
                   "the call maps to; a deliberately corrupted copy of the log must be rejected at the corrupted line"
    return level, cov, assumptions


def _run_a(tier, seed, verdict, runs):
    return runner.assemble(
        "C10", verdict, runs, owns=lambda f: owner_of(f) == "C10",
        rule="every history of create (values / DataType / dictionary assignment) / assign / extend / clear / delete / "
             "optional-attribute / odml-type / subsection calls within the bounds, with homogeneous candidate lists of "
             "each of the four types and the mixed lists bool+int, int+float, text+number (both orders, and a list "
             "whose first elements agree); concretisation picks True/False vs 1/0, 1 vs 1.0, int64 extremes, NaN, +-inf, "
             "-0.0, empty / non-ASCII / long text, list / tuple / ndarray / scalar containers and name pools; after each "
             "call the section is read through three section handles, the long-lived property handles and the "
             "dictionary interface, then again after reopening read-only and read-write",
        assumptions=["text values are never passed as NumPy arrays (their dtype is not the stored vlen type - left open)",
                     "len(section) is the number of properties (as built)",
                     "a refused call that changes the state is reported by C12, not here"],
        tlc_props=["TypeOK", "Homogeneous", "DictConsistent", "RefusedUnchanged", "DtypeFixed", "ExtendIsConcat", "WriteFrame",
                   "TraceAccepted (NixMetaTrace: every recorded line explained)"],
        need=("CreateProp:ok", "Assign:ok", "Extend:ok", "Clear:ok", "DeleteProp:ok", "CreateTyped:ok",
              "Assign:refused:TypeError", "Extend:refused:TypeError", "CreateProp:refused:TypeError", "SetAttr:ok",
              "SetOdml:ok", "SetOdml:refused:TypeError", "CreateSub:ok"))


def replay(path, prop="C10"):
    with open(path) as fh:
        rec = json.load(fh)
    rp = rec["replay"]
    with core.Scratch("c10r") as tmp:
        opts = dict(rp["opts"])
        opts["rundir"] = tmp
        init(opts)
        res = replay_one({"hist": rp["hist"], "act": rp["act"], "from": rp["from"], "to": rp["to"]})
    hit = False
    for f in res["findings"]:
        print("MISMATCH key=%s\n  %s" % (f["key"], json.dumps(f["detail"], default=repr, ensure_ascii=False)[:900]))
        hit = hit or f["key"] == rec["key"]
    print("recorded key %s: %s" % (rec["key"], "REPRODUCED" if hit else "not reproduced"))
    if hit:
        print("VIOLATION property=%s replay=%s" % (prop, path))
    return 1 if hit else 0
