# -*- coding: utf-8 -*-
"""
Regenerates /verif/MANIFEST.json from the table below (run: /venv/bin/python -m harness.manifest_gen).
A property is either claimed (entry in CLAIMS) or listed under not_applicable with a reason.
"""
import json
import os

VERIF = os.path.dirname(os.path.dirname(os.path.abspath(__file__)))

MC = "model_checking"

CLAIMS = {
    "C02": dict(
        engine="NixModel",
        technique="TLA+ spec NixModel checked by TLC (invariants + action properties) + replay of every exported transition (history prefix, action, full projection, reopen) against nixio",
        text="TLC enumerates every history of create / set-attribute / write / link / unlink / delete calls within the bounds; each exported transition is replayed from an empty file and the file is closed and reopened read-only and read-write: both projections of the complete observable state must equal the specification state reached by the calls (last write wins, deleted stays deleted), with a seeded mix of long-lived handles and fresh lookups.",
        note="Trusted: TLC; the projection (public API walk) and the concretisation pools; bounded universe (2 names, <= 14 objects, depth bound of the configuration); quick tier replays a seeded stride of the exported transitions, thorough replays more/all.",
        design_ref="6/C02"),
    "C03": dict(
        engine="NixModel",
        technique="TLA+ spec NixModel checked by TLC (invariants + action properties) + replay of every exported transition (history prefix, action, full projection, reopen) against nixio",
        text="TLC enumerates all create/delete histories over every container kind (NameUnique, EidUnique, IdNameStable, NumbersNeverReused checked in the model); on every reached state every container is probed through len, iteration, positive and negative indices, by-name, by-id, membership (name/id/entity), items(), absent keys - in the session and after reopen - against the creation-order sequence of the specification; ids must be canonical UUIDs, injective and stable; six name pools incl. reversed sort order, non-NFC unicode, 1000 characters, UUID-looking names.",
        note="Trusted: TLC; the projection (public API walk) and the concretisation pools; bounded universe (2 names, <= 14 objects, depth bound of the configuration); quick tier replays a seeded stride of the exported transitions, thorough replays more/all.",
        design_ref="6/C03"),
    "C04": dict(
        engine="NixModel",
        technique="TLA+ spec NixModel checked by TLC (invariants + action properties) + replay of every exported transition (history prefix, action, full projection, reopen) against nixio",
        text="The specification writes deletion operationally (by entity id over the whole file, like the code) and TLC checks the declarative frame condition DeleteFrame, NoDangling and UnlinkKeepsTarget against it on every state; every link/unlink/delete interleaving after a scripted 14-object prefix is replayed and the whole file (all lists, role links, survivors, order) compared after each call and after reopen.",
        note="Trusted: TLC; the projection (public API walk) and the concretisation pools; bounded universe (2 names, <= 14 objects, depth bound of the configuration); quick tier replays a seeded stride of the exported transitions, thorough replays more/all.",
        design_ref="6/C04"),
    "C05": dict(
        engine="NixModel",
        technique="TLA+ spec NixModel checked by TLC (invariants + action properties) + replay of every exported transition (history prefix, action, full projection, reopen) against nixio",
        text="Every link append (right kind, wrong kind, other block incl. same-name entities), role assignment and attribute/data write after a scripted prefix with two blocks re-using names; the projection reads every entity through every path that reaches it (container, each link list, each role link) so a copy instead of an alias, or an accepted foreign entity, is a mismatch; LinkKindAndBlock is an invariant of the model.",
        note="Trusted: TLC; the projection (public API walk) and the concretisation pools; bounded universe (2 names, <= 14 objects, depth bound of the configuration); quick tier replays a seeded stride of the exported transitions, thorough replays more/all.",
        design_ref="6/C05"),
    "C07": dict(
        engine="NixDim",
        technique="TLA+ spec NixDim (declarative order semantics) checked by TLC + replay of every TLC-exported vector against real dimension objects",
        text="NixDim defines index_of / range_indices / position_at / axis declaratively as Max/Min of 'samples whose coordinate "
             "satisfies the relation'; TLC checks RoundTrip, ModeMeaning, DecompOK (the code's two-call decomposition is equivalent "
             "to the set definition), Contiguous and ExclusiveSubset on every vector and exports every (descriptor, query) vector; "
             "each is executed on a real Sampled/Range/SetDimension in a scratch file. Exhaustive over the bounded grid domain.",
        note="Trusted: TLC; grid of 1/4 makes all floats exact so np.isclose tolerances never decide; intervals > 0, start <= end; "
             "unbounded descriptors approximated by index bound 64 (law BigEnough shows the bound is never reached).",
        design_ref="6/C07"),
    "C09": dict(
        engine="NixUnits",
        technique="TLA+ spec NixUnits checked by TLC (laws on every vector) + replay of every TLC-exported vector against nixio.util.units",
        text="TLC enumerates the complete finite domain the property quantifies over (21x21 prefix pairs x 31 units x 7 powers, "
             "all atoms, cross-unit/cross-power pairs, all compounds of 2-4 pool atoms), checks composition/inversion/reflexivity/"
             "ratio-to-the-power/grammar-unambiguity on it, and every exported vector is executed against the code: exhaustive "
             "over the stated domain, so a wrong table entry, branch or regex is found if it affects any table combination.",
        note="Trusted: TLC, the transcription of the SI tables into NixUnits.tla (cross-checked: the code accepts every generated "
             "atom), float comparison at rel. tol. 1e-12. Powers limited to -3..3; '^1' vs no power left open.",
        design_ref="6/C09"),
    "C12": dict(
        engine="NixModel",
        technique="TLA+ spec NixModel checked by TLC (invariants + action properties) + replay of every exported transition (history prefix, action, full projection, reopen) against nixio",
        text="Refused calls are self-loops of the state graph (RefusedUnchanged checked by TLC); every fault class x call site is executed at every reachable state of a populated file and of all small files, the complete projection is compared before/after and after reopen, and the rejected name must stay available.",
        note="Trusted: TLC; the projection (public API walk) and the concretisation pools; bounded universe (2 names, <= 14 objects, depth bound of the configuration); quick tier replays a seeded stride of the exported transitions, thorough replays more/all.",
        design_ref="6/C12"),
    "C19": dict(
        engine="NixModel",
        technique="TLA+ spec NixModel checked by TLC (invariants + action properties) + replay of every exported transition (history prefix, action, full projection, reopen) against nixio",
        text="The library clock is replaced by the specification clock; created_at/updated_at of every entity (file and features included) are part of the compared projection, so CreatedAtFixed, UpdatedMonotone, TimestampLocality, NoAutoNoChange and ListedAttrStamps - checked by TLC on the model - are checked on the code after every call (Tick, auto switch at any time, force to pool timestamps 1970..2100, reopen).",
        note="Trusted: TLC; the projection (public API walk) and the concretisation pools; bounded universe (2 names, <= 14 objects, depth bound of the configuration); quick tier replays a seeded stride of the exported transitions, thorough replays more/all.",
        design_ref="6/C19"),
}

NOT_YET = "check not built yet (construction in progress, see DESIGN.md section 8)"
NOT_APPLICABLE = {}


def main():
    props = [json.loads(l) for l in open(os.path.join(VERIF, "properties.jsonl"))]
    checks = []
    na = []
    engines = {}
    for p in props:
        pid = p["id"]
        c = CLAIMS.get(pid)
        if c is None:
            na.append({"property_id": pid, "reason": NOT_APPLICABLE.get(pid, NOT_YET)})
            continue
        checks.append({
            "property_id": pid,
            "quick_cmd": "./check %s --tier quick" % pid,
            "thorough_cmd": "./check %s --tier thorough" % pid,
            "evidence_file": "/verif/evidence/%s.json" % pid,
            "replay_cmd_template": "./check %s --replay {path}" % pid,
            "engine": c["engine"],
            "level_claimed": {"category": c.get("category", MC), "text": c["text"],
                              "design_ref": "DESIGN.md section " + c["design_ref"]},
            "level_note": c["note"],
            "technique": c["technique"],
        })
        engines.setdefault(c["engine"], []).append(pid)
    manifest = {
        "version": 1,
        "setup_cmd": "./check --setup",
        "hooks": {
            "guard": "NIXPY_VERIF",
            "enable": "no source hooks: checks import /repo's working tree directly (PYTHONPATH=/repo) and observe "
                      "the public API from the harness side; NIXPY_VERIF=1 is exported by ./check for harness-side tracers only",
            "baseline_off_cmd": "cd /repo && /venv/bin/python -m pytest -q -p no:cacheprovider --timeout=900 "
                                "--continue-on-collection-errors",
            "source_commits": [],
            "add_only": True,
        },
        "engines": [{"name": n, "path": "/verif/spec/%s.tla" % n, "serves_properties": ps,
                     "kind_free_text": "TLA+ module checked with TLC; bound to the code by harness/*.py replayers"}
                    for n, ps in sorted(engines.items())],
        "checks": checks,
        "notes": "Model-based verification with explicit TLA+ specifications (spec/), TLC, and conformance replay "
                 "(harness/). See DESIGN.md. known_findings.json lists recorded and fixed defects.",
        "not_applicable": na,
    }
    with open(os.path.join(VERIF, "MANIFEST.json"), "w") as fh:
        json.dump(manifest, fh, indent=1)
    print("MANIFEST.json: %d claimed, %d not claimed" % (len(checks), len(na)))


if __name__ == "__main__":
    main()
