# -*- coding: utf-8 -*-
"""
Regenerates /verif/MANIFEST.json from the table below (run: /venv/bin/python -m harness.manifest_gen).
A property is either claimed (entry in CLAIMS) or listed under not_applicable with a reason.
"""
import json
import os

VERIF = os.path.dirname(os.path.dirname(os.path.abspath(__file__)))

MC = "model_checking"

CLAIMS = {
    "C07": dict(
        engine="NixDim",
        technique="TLA+ spec NixDim (declarative order semantics) checked by TLC + replay of every TLC-exported vector against real dimension objects",
        text="NixDim defines index_of / range_indices / position_at / axis declaratively as Max/Min of 'samples whose coordinate "
             "satisfies the relation'; TLC checks RoundTrip, ModeMeaning, DecompOK (the code's two-call decomposition is equivalent "
             "to the set definition), Contiguous and ExclusiveSubset on every vector and exports every (descriptor, query) vector; "
             "each is executed on a real Sampled/Range/SetDimension in a scratch file. Exhaustive over the bounded grid domain.",
        note="Trusted: TLC; grid of 1/4 makes all floats exact so np.isclose tolerances never decide; intervals > 0, start <= end; "
             "unbounded descriptors approximated by index bound 64 (law BigEnough shows the bound is never reached).",
        design_ref="6/C07"),
    "C09": dict(
        engine="NixUnits",
        technique="TLA+ spec NixUnits checked by TLC (laws on every vector) + replay of every TLC-exported vector against nixio.util.units",
        text="TLC enumerates the complete finite domain the property quantifies over (21x21 prefix pairs x 31 units x 7 powers, "
             "all atoms, cross-unit/cross-power pairs, all compounds of 2-4 pool atoms), checks composition/inversion/reflexivity/"
             "ratio-to-the-power/grammar-unambiguity on it, and every exported vector is executed against the code: exhaustive "
             "over the stated domain, so a wrong table entry, branch or regex is found if it affects any table combination.",
        note="Trusted: TLC, the transcription of the SI tables into NixUnits.tla (cross-checked: the code accepts every generated "
             "atom), float comparison at rel. tol. 1e-12. Powers limited to -3..3; '^1' vs no power left open.",
        design_ref="6/C09"),
}

NOT_YET = "check not built yet (construction in progress, see DESIGN.md section 8)"
NOT_APPLICABLE = {}


def main():
    props = [json.loads(l) for l in open(os.path.join(VERIF, "properties.jsonl"))]
    checks = []
    na = []
    engines = {}
    for p in props:
        pid = p["id"]
        c = CLAIMS.get(pid)
        if c is None:
            na.append({"property_id": pid, "reason": NOT_APPLICABLE.get(pid, NOT_YET)})
            continue
        checks.append({
            "property_id": pid,
            "quick_cmd": "./check %s --tier quick" % pid,
            "thorough_cmd": "./check %s --tier thorough" % pid,
            "evidence_file": "/verif/evidence/%s.json" % pid,
            "replay_cmd_template": "./check %s --replay {path}" % pid,
            "engine": c["engine"],
            "level_claimed": {"category": c.get("category", MC), "text": c["text"],
                              "design_ref": "DESIGN.md section " + c["design_ref"]},
            "level_note": c["note"],
            "technique": c["technique"],
        })
        engines.setdefault(c["engine"], []).append(pid)
    manifest = {
        "version": 1,
        "setup_cmd": "./check --setup",
        "hooks": {
            "guard": "NIXPY_VERIF",
            "enable": "no source hooks: checks import /repo's working tree directly (PYTHONPATH=/repo) and observe "
                      "the public API from the harness side; NIXPY_VERIF=1 is exported by ./check for harness-side tracers only",
            "baseline_off_cmd": "cd /repo && /venv/bin/python -m pytest -q -p no:cacheprovider --timeout=900 "
                                "--continue-on-collection-errors",
            "source_commits": [],
            "add_only": True,
        },
        "engines": [{"name": n, "path": "/verif/spec/%s.tla" % n, "serves_properties": ps,
                     "kind_free_text": "TLA+ module checked with TLC; bound to the code by harness/*.py replayers"}
                    for n, ps in sorted(engines.items())],
        "checks": checks,
        "notes": "Model-based verification with explicit TLA+ specifications (spec/), TLC, and conformance replay "
                 "(harness/). See DESIGN.md. known_findings.json lists recorded and fixed defects.",
        "not_applicable": na,
    }
    with open(os.path.join(VERIF, "MANIFEST.json"), "w") as fh:
        json.dump(manifest, fh, indent=1)
    print("MANIFEST.json: %d claimed, %d not claimed" % (len(checks), len(na)))


if __name__ == "__main__":
    main()
