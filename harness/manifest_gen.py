# -*- coding: utf-8 -*-
"""
Regenerates /verif/MANIFEST.json from the table below (run: /venv/bin/python -m harness.manifest_gen).
A property is either claimed (entry in CLAIMS) or listed under not_applicable with a reason.
"""
import json
import os

VERIF = os.path.dirname(os.path.dirname(os.path.abspath(__file__)))

MC = "model_checking"

CLAIMS = {
    "C18": dict(
        engine="NixUpgrade",
        technique="TLA+ spec NixUpgrade (tool + crash + re-run; safety and liveness checked by TLC) + every maximal behaviour executed on a crafted old-format file with the tool killed between steps, representation state compared after every run",
        text="NixUpgrade models the header version, file id and the representation of every property and self-referencing range dimension, the tool's planning from the current file, one step per append-mode open, the version bump last, a kill between any two steps and re-runs; TLC checks VersionLast, Idempotent, OldStillRecognised, Monotone, PlanOK and, under fairness, Completes. Every maximal behaviour is executed: the initial old-format file is crafted with h5py, each run is a forked child killed at its k-th append-mode open, the representation state read with h5py must equal the specification state after every run, and the completed file must be writable, need no further task, read with the same content as before down-conversion (extras retrievable) and stay byte-identical under a further run.",
        note="Trusted: TLC; the h5py crafting of format-1.1.0 files; kill points are the append-mode opens (one per step); interruption inside a step is excluded by the property.",
        design_ref="6/C18"),
    "C14": dict(
        engine="NixValidate",
        technique="TLA+ spec NixValidate (abstract files with injected inconsistencies, expected error classes per object; laws checked by TLC) + every abstract file built for real and File.validate() compared per object",
        text="NixValidate builds abstract files (arrays of rank 1 and 2 with every mix of descriptor kinds, a tag and a multi-tag referencing either, block, group, source, section), injects zero, one or two catalogue inconsistencies at every eligible object and defines the <<object, error class>> pairs validation must report; TLC checks WellFormedClean, SingleDetected (a single inconsistency is never masked), Locality (errors only at the object or its referrers) and ArrayLeak; each abstract file is built with the API (beneath it where the API refuses) and validate()['errors'] is compared as sets of message classes for all objects.",
        note="Trusted: TLC; message classes by the validator's own templates; missing id / creation date are left open (an entity without them cannot be instantiated); warnings and feature / property sub-entries not judged.",
        design_ref="6/C14"),
    "C20": dict(
        engine="NixModel",
        technique="TLA+ spec NixModel with a Copy action (CopyComplete, CopyIndependent, FreshIdsUnique checked by TLC) + replay of every exported transition with the copied entities bound by primary path, full projection, container probes, and a cross-file copy probe",
        text="The Copy action duplicates the owned subtree, remaps links among the copied entities and keeps or renews the ids; TLC checks CopyComplete (same content recursively, links remapped, nothing else changed), CopyIndependent, EidUnique and the delete / refusal frame conditions over every copy of a block with internal links, link-free arrays, tags, sections and properties into every legal parent under every name, followed by every single mutation of either side; each transition is replayed, the whole file projected (ids through an injective registry: fresh ids must be new and unique, kept ids equal), every container of the copy probed by name / id / index, reopened, and one entity per state copied into a second file with either id policy (content, ids, returned handle, changes of one side invisible on the other).",
        note="Trusted: TLC; copies are generated only for subtrees closed under links (links leaving the subtree: left open); keep-id copies inside one file only in the thorough tier without deletes (two entities with one id: recorded design-level finding); data frames are outside the entity-graph model.",
        design_ref="6/C20"),
    "C16": dict(
        engine="NixFrame",
        technique="TLA+ spec NixFrame (columns x rows of write stamps) checked by TLC + replay of every exported transition against DataFrame, all read paths, reopen",
        text="NixFrame models a data frame as typed named columns and rows of write stamps; TLC checks ShapeMatches, RefusedUnchanged, CellFrame (a write changes only the addressed cells), AppendKeeps, TypesFixed over every history of the four creation variants, append rows / column, overwrite of rows, columns and cells addressed by index and by name (column 0 and the last row included), units and refused writes; each transition is replayed from an empty file and the table is read through every read path, two long-lived handles and a fresh one, and after reopening read-only and read-write.",
        note="Trusted: TLC; a 40-line stamp interpreter in the harness re-derives intermediate states of the history and is cross-checked against TLC's pre-state on every transition; schemas of 1-6 columns over text/int64/float64/bool/int8, <= 4 rows, depth 4.",
        design_ref="6/C16"),
    "C11": dict(
        engine="NixOpen",
        technique="TLA+ specs NixOpen (gating function, laws checked by TLC) and NixSession x NixModel (read-only sessions placed by TLC in write histories) + execution of every vector / schedule against File.open and real read-only sessions (sha256, projection)",
        text="NixOpen enumerates every header (36 version triples x format tag x id state, or no file) x open mode with the expected outcome class; TLC checks WritableImpliesReadable, OverwriteEmpties, OthersKeep, CreateOnlyIfMissing, MinorMonotone, ForeignRefused; each vector is executed on a file crafted with h5py (outcome, fresh header after truncation, content and header untouched otherwise). NixSession places read-only sessions at every point of write histories exported from NixModel; the transition's own mutator is attempted read-only and must raise iff it changes the state in a writable session; projection in the read-only session equals the writable one, bytes on disk (sha256) unchanged.",
        note="Trusted: TLC; h5py for crafting headers; the mutators attempted read-only are those of the NixModel families (create, attributes, data, links, roles, delete) over all entity kinds; files without a version attribute left open.",
        design_ref="6/C11"),
    "C17": dict(
        engine="NixSession",
        technique="TLA+ spec NixSession (mem/disk/flush/close/kill, checked by TLC) composed with NixModel and NixArray write histories + real SIGKILL of a forked writer after flush()/close(), reopen and full projection compare",
        text="TLC explores every placement of Flush / Close / Kill / reopen in the session model (KillAfterFlushLosesNothing, OpenShowsDisk, DiskMonotone) and the write histories of the entity-graph and array models; each session runs in a forked child that records the projection at every flush()/close() and is SIGKILLed where the schedule says so; the parent opens the file read-only and read-write and compares the complete projection with the flush-point record and with the specification state.",
        note="Trusted: TLC; SIGKILL delivered by the writer to itself right after flush()/close() returned (no interpreter shut-down); OS crash / power loss not modelled.",
        design_ref="6/C17"),
    "C01": dict(
        engine="NixArray",
        technique="TLA+ spec NixArray (cell -> write-stamp map) checked by TLC + replay of every exported transition on a real DataArray under seeded concretisations (element type, values, compression, handles)",
        text="NixArray models one n-d array as a map from cells to the write that last stored them; TLC checks ShapeOK, AppendPreserves, ResizePreserves, AssignFrame, RefusedUnchanged on every history of create / whole write / region assignment / append along any axis / resize (ranks 1-4, zero-length axes) and exports every transition; each is replayed with one of 12 element types, value pools with extremes / NaN / +-inf / -0.0 / empty and non-ASCII text, a file x block x array compression triple, through two long-lived handles and a fresh one, and again after reopen; every read path must return bit-exactly the value of each cell's stamp.",
        note="Trusted: TLC; value equality is judged in the harness (the specification says which write a cell belongs to); bounded shapes (<= 12 cells) and depth; quick tier replays a seeded stride.",
        design_ref="6/C01"),
    "C06": dict(
        engine="NixIndex",
        technique="TLA+ spec NixIndex/NixIndexing (NumPy index-expression resolution from first principles) checked by TLC + every exported vector executed on nixio arrays and views and cross-checked against NumPy",
        text="NixIndex enumerates (shape, optional view window, index expression) vectors; TLC checks InSpace, InWindow, ErrorOnlyFromInts, WholeWindow, Composition on each; every vector is evaluated three ways - specification, NumPy on an in-memory copy (must agree, else machinery failure), nixio read and (seeded share) assignment on DataArray and DataView; views are additionally read after every step of the NixArray histories (append / resize through another handle).",
        note="Trusted: TLC; NumPy as the property's own oracle; ranks 1-4 with small extents; negative window starts and surplus indices on views are left open.",
        design_ref="6/C06"),
    "C08": dict(
        engine="NixTagging",
        technique="TLA+ spec NixTagging (region -> selected samples, declaratively, on top of NixDim and the SI unit table) checked by TLC + every exported vector executed through Tag, MultiTag and feature reads",
        text="NixTagging enumerates referenced arrays (per dimension: sampled / range / set descriptor, stored extent, tag-unit x dimension-unit case) x tags (position on / between / outside samples, extent none / 0 / between / past the end, both stop rules, positions shorter than the rank); TLC checks ExactlyRegion, NoneMeansNone, ZeroIsPoint, RuleOnlyAtEnd, AgreesWithRangeIndices, BeyondIsWhole; each vector is executed through Tag.tagged_data, one row of a MultiTag (1-D and 2-D position arrays) and tagged / indexed / untagged features and must yield exactly the specified index ranges, or an empty invalid view / out-of-bounds error where the specification says 'none'.",
        note="Trusted: TLC; grid coordinates (1/4) and tag numbers whose float products are exact, so tolerances never decide; ranks 1 and 2 (every pair of descriptor kinds); negative extents and mixed unit lists left open.",
        design_ref="6/C08"),
    "C10": dict(
        engine="NixMeta",
        technique="TLA+ spec NixMeta (typed value lists, dictionary view) checked by TLC + replay of every exported transition against Section / Property with reopen + trace validation of recorded random executions by TLC (NixMetaTrace)",
        text="NixMeta models a section's properties (dtype fixed at creation, value token lists, optional attributes) and subsections; TLC checks TypeOK, Homogeneous, DictConsistent, RefusedUnchanged, DtypeFixed, ExtendIsConcat, WriteFrame over all histories of create / assign / extend / clear / delete / dictionary-style calls with homogeneous and mixed candidate lists; every transition is replayed with concretisations that pit True/False against 1/0, 1 against 1.0, int64 extremes, NaN, empty and non-ASCII text, list / tuple / ndarray / scalar containers; values, types, attributes and the dictionary interface are read through several long-lived handles and after reopening read-only and read-write. In the other direction, random executions over 6 names and longer histories are recorded from the library (call, outcome class, complete projected state per line) and NixMetaTrace.tla has to explain every line; a corrupted copy of the log must be rejected at the corrupted line.",
        note="Trusted: TLC; two property names, lists up to 5 values, depth 4 for the exhaustive part; text values are never passed as NumPy arrays; len(section) follows the code (number of properties).",
        design_ref="6/C10"),
    "C13": dict(
        engine="NixModel",
        technique="TLA+ spec NixModel with breadth-first search observables computed by TLC (SearchSound, SearchMonotone checked) + every search / parent / referring list executed on every reached state, on kept and fresh handles",
        text="TLC builds every tree of sections and sources over two names (repeated names across subtrees and levels) and every metadata / source link assignment after a scripted prefix, and exports for each reached state the breadth-first result of every search (every root, limits 0..4 and none); the probe runs each search with and without name filters, every parent / parent_source / parent_block and every referring_* list, on handles kept from creation and on fresh handles after reopening.",
        note="Trusted: TLC; trees up to 5-6 nodes, depth 3; find_*(limit=0) on File/Block follows the code; referring lists compared as sets.",
        design_ref="6/C13"),
    "C15": dict(
        engine="NixArray",
        technique="TLA+ spec NixArray (calibration polynomial evaluated exactly by TLC) checked by TLC + replay of every exported transition on a real DataArray, all read paths",
        text="TLC explores set / change / clear sequences of coefficient lists (length 0-5) and origins interleaved with writes and region assignments, checks CalibrationLeavesRaw, and exports the exact calibrated value of every cell; after each step every read path (whole, region, element, read_direct, views, iteration) through two long-lived handles and a fresh one must return those doubles while the stored dataset keeps the raw values, also after reopen.",
        note="Trusted: TLC; raw values are small integers so the polynomial is exact in double precision; shapes <= (2,2)/(3,); tag read paths are C08's.",
        design_ref="6/C15"),
    "C02": dict(
        engine="NixModel",
        technique="TLA+ spec NixModel checked by TLC (invariants + action properties) + replay of every exported transition (history prefix, action, full projection, reopen) against nixio",
        text="TLC enumerates every history of create / set-attribute / write / link / unlink / delete calls within the bounds; each exported transition is replayed from an empty file and the file is closed and reopened read-only and read-write: both projections of the complete observable state must equal the specification state reached by the calls (last write wins, deleted stays deleted), with a seeded mix of long-lived handles and fresh lookups.",
        note="Trusted: TLC; the projection (public API walk) and the concretisation pools; bounded universe (2 names, <= 14 objects, depth bound of the configuration); quick tier replays a seeded stride of the exported transitions, thorough replays more/all.",
        design_ref="6/C02"),
    "C03": dict(
        engine="NixModel",
        technique="TLA+ spec NixModel checked by TLC (invariants + action properties) + replay of every exported transition (history prefix, action, full projection, reopen) against nixio",
        text="TLC enumerates all create/delete histories over every container kind (NameUnique, EidUnique, IdNameStable, NumbersNeverReused checked in the model); on every reached state every container is probed through len, iteration, positive and negative indices, by-name, by-id, membership (name/id/entity), items(), absent keys - in the session and after reopen - against the creation-order sequence of the specification; ids must be canonical UUIDs, injective and stable; six name pools incl. reversed sort order, non-NFC unicode, 1000 characters, UUID-looking names.",
        note="Trusted: TLC; the projection (public API walk) and the concretisation pools; bounded universe (2 names, <= 14 objects, depth bound of the configuration); quick tier replays a seeded stride of the exported transitions, thorough replays more/all.",
        design_ref="6/C03"),
    "C04": dict(
        engine="NixModel",
        technique="TLA+ spec NixModel checked by TLC (invariants + action properties) + replay of every exported transition (history prefix, action, full projection, reopen) against nixio",
        text="The specification writes deletion operationally (by entity id over the whole file, like the code) and TLC checks the declarative frame condition DeleteFrame, NoDangling and UnlinkKeepsTarget against it on every state; every link/unlink/delete interleaving after a scripted 14-object prefix is replayed and the whole file (all lists, role links, survivors, order) compared after each call and after reopen.",
        note="Trusted: TLC; the projection (public API walk) and the concretisation pools; bounded universe (2 names, <= 14 objects, depth bound of the configuration); quick tier replays a seeded stride of the exported transitions, thorough replays more/all.",
        design_ref="6/C04"),
    "C05": dict(
        engine="NixModel",
        technique="TLA+ spec NixModel checked by TLC (invariants + action properties) + replay of every exported transition (history prefix, action, full projection, reopen) against nixio",
        text="Every link append (right kind, wrong kind, other block incl. same-name entities), role assignment and attribute/data write after a scripted prefix with two blocks re-using names; the projection reads every entity through every path that reaches it (container, each link list, each role link) so a copy instead of an alias, or an accepted foreign entity, is a mismatch; LinkKindAndBlock is an invariant of the model.",
        note="Trusted: TLC; the projection (public API walk) and the concretisation pools; bounded universe (2 names, <= 14 objects, depth bound of the configuration); quick tier replays a seeded stride of the exported transitions, thorough replays more/all.",
        design_ref="6/C05"),
    "C07": dict(
        engine="NixDim",
        technique="TLA+ spec NixDim (declarative order semantics) checked by TLC + replay of every TLC-exported vector against real dimension objects",
        text="NixDim defines index_of / range_indices / position_at / axis declaratively as Max/Min of 'samples whose coordinate "
             "satisfies the relation'; TLC checks RoundTrip, ModeMeaning, DecompOK (the code's two-call decomposition is equivalent "
             "to the set definition), Contiguous and ExclusiveSubset on every vector and exports every (descriptor, query) vector; "
             "each is executed on a real Sampled/Range/SetDimension in a scratch file. Exhaustive over the bounded grid domain.",
        note="Trusted: TLC; grid of 1/4 makes all floats exact so np.isclose tolerances never decide; intervals > 0, start <= end; "
             "unbounded descriptors approximated by index bound 64 (law BigEnough shows the bound is never reached).",
        design_ref="6/C07"),
    "C09": dict(
        engine="NixUnits",
        technique="TLA+ spec NixUnits checked by TLC (laws on every vector) + replay of every TLC-exported vector against nixio.util.units",
        text="TLC enumerates the complete finite domain the property quantifies over (21x21 prefix pairs x 31 units x 7 powers, "
             "all atoms, cross-unit/cross-power pairs, all compounds of 2-4 pool atoms), checks composition/inversion/reflexivity/"
             "ratio-to-the-power/grammar-unambiguity on it, and every exported vector is executed against the code: exhaustive "
             "over the stated domain, so a wrong table entry, branch or regex is found if it affects any table combination.",
        note="Trusted: TLC, the transcription of the SI tables into NixUnits.tla (cross-checked: the code accepts every generated "
             "atom), float comparison at rel. tol. 1e-12. Powers limited to -3..3; '^1' vs no power left open.",
        design_ref="6/C09"),
    "C12": dict(
        engine="NixModel",
        technique="TLA+ spec NixModel checked by TLC (invariants + action properties) + replay of every exported transition (history prefix, action, full projection, reopen) against nixio",
        text="Refused calls are self-loops of the state graph (RefusedUnchanged checked by TLC); every fault class x call site is executed at every reachable state of a populated file and of all small files, the complete projection is compared before/after and after reopen, and the rejected name must stay available.",
        note="Trusted: TLC; the projection (public API walk) and the concretisation pools; bounded universe (2 names, <= 14 objects, depth bound of the configuration); quick tier replays a seeded stride of the exported transitions, thorough replays more/all.",
        design_ref="6/C12"),
    "C19": dict(
        engine="NixModel",
        technique="TLA+ spec NixModel checked by TLC (invariants + action properties) + replay of every exported transition (history prefix, action, full projection, reopen) against nixio",
        text="The library clock is replaced by the specification clock; created_at/updated_at of every entity (file and features included) are part of the compared projection, so CreatedAtFixed, UpdatedMonotone, TimestampLocality, NoAutoNoChange and ListedAttrStamps - checked by TLC on the model - are checked on the code after every call (Tick, auto switch at any time, force to pool timestamps 1970..2100, reopen).",
        note="Trusted: TLC; the projection (public API walk) and the concretisation pools; bounded universe (2 names, <= 14 objects, depth bound of the configuration); quick tier replays a seeded stride of the exported transitions, thorough replays more/all.",
        design_ref="6/C19"),
}

NOT_YET = "check not built yet (construction in progress, see DESIGN.md section 8)"
NOT_APPLICABLE = {}


def main():
    props = [json.loads(l) for l in open(os.path.join(VERIF, "properties.jsonl"))]
    checks = []
    na = []
    engines = {}
    for p in props:
        pid = p["id"]
        c = CLAIMS.get(pid)
        if c is None:
            na.append({"property_id": pid, "reason": NOT_APPLICABLE.get(pid, NOT_YET)})
            continue
        checks.append({
            "property_id": pid,
            "quick_cmd": "./check %s --tier quick" % pid,
            "thorough_cmd": "./check %s --tier thorough" % pid,
            "evidence_file": "/verif/evidence/%s.json" % pid,
            "replay_cmd_template": "./check %s --replay {path}" % pid,
            "engine": c["engine"],
            "level_claimed": {"category": c.get("category", MC), "text": c["text"],
                              "design_ref": "DESIGN.md section " + c["design_ref"]},
            "level_note": c["note"],
            "technique": c["technique"],
        })
        engines.setdefault(c["engine"], []).append(pid)
    manifest = {
        "version": 1,
        "setup_cmd": "./check --setup",
        "hooks": {
            "guard": "NIXPY_VERIF",
            "enable": "no source hooks: checks import /repo's working tree directly (PYTHONPATH=/repo) and observe "
                      "the public API from the harness side; NIXPY_VERIF=1 is exported by ./check for harness-side tracers only",
            "baseline_off_cmd": "cd /repo && /venv/bin/python -m pytest -q -p no:cacheprovider --timeout=900 "
                                "--continue-on-collection-errors",
            "source_commits": [],
            "add_only": True,
        },
        "engines": [{"name": n, "path": "/verif/spec/%s.tla" % n, "serves_properties": ps,
                     "kind_free_text": "TLA+ module checked with TLC; bound to the code by harness/*.py replayers"}
                    for n, ps in sorted(engines.items())],
        "checks": checks,
        "notes": "Model-based verification with explicit TLA+ specifications (spec/), TLC, and conformance replay "
                 "(harness/). See DESIGN.md. known_findings.json lists recorded and fixed defects.",
        "not_applicable": na,
    }
    with open(os.path.join(VERIF, "MANIFEST.json"), "w") as fh:
        json.dump(manifest, fh, indent=1)
    print("MANIFEST.json: %d claimed, %d not claimed" % (len(checks), len(na)))


if __name__ == "__main__":
    main()
