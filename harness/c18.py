# -*- coding: utf-8 -*-
"""
C18 - format upgrade preserves content, is idempotent and resumable after interruption.

NixUpgrade.tla models the file (version, file id, representation of every property and of every self-referencing range
dimension) and the tool (collect tasks from the current file, one step per append-mode open, version bump last, crash
between any two steps, re-run); TLC checks VersionLast, Idempotent, OldStillRecognised, Monotone, PlanOK (safety) and
Completes (liveness under fairness with at most 2 crashes).  Every maximal behaviour is executed: an old-format file
in the behaviour's initial state is crafted with h5py, each run of the tool is a forked child in which the k-th
append-mode open kills the process, and after every run the real file's representation state is compared with the
specification state; at the end the content is compared with the content before down-conversion.
"""
import hashlib
import json
import os
import signal
import sys

import numpy as np

from . import core
from . import runner

_W = {}
OLDVER = (1, 1, 0)


def init(opts):
    _W["opts"] = opts
    _W["nixio"] = core.import_nixio()
    _W["dir"] = os.path.join(opts["rundir"], "u%d" % os.getpid())
    os.makedirs(_W["dir"], exist_ok=True)
    _W["n"] = 0


# ---------------------------------------------------------------------------
# building the old-format file

PROPDEFS = {
    1: dict(name="count", values=[1, 2, 3], unit="mV", definition="an integer property",
            uncertainty=[0.5, 0.25, 0.5], reference=["ref-a", "", "ref-c"]),
    # (1 and 2 live in the same section: the tool may be interrupted between two properties of one section)
    2: dict(name="ratio", values=[1.5, -2.25], unit="s", definition="floats",
            uncertainty=[0.0, 0.0], reference=["", ""]),
    3: dict(name="label ü", values=["a", "", "名前"], unit=None, definition=None,
            uncertainty=[0.125, 0.125, 0.125], reference=["", "", ""]),
}
DIMDEFS = {1: dict(name="time", data=[0.5, 1.0, 2.5, 4.0], unit="ms", label="time"),
           2: dict(name="depth", data=[1.0, 2.0, 3.0], unit="um", label="depth")}


def build_new(nixio, path, P, D):
    nf = nixio.File.open(path, nixio.FileMode.Overwrite)
    blk = nf.create_block("blk", "t")
    plain = blk.create_data_array("plain", "t", data=np.arange(6.0).reshape((2, 3)))
    plain.append_set_dimension(labels=["a", "b"])
    plain.append_sampled_dimension(0.25, unit="ms", label="t")
    for d in D:
        dd = DIMDEFS[d]
        da = blk.create_data_array(dd["name"], "t", data=dd["data"])
        da.unit, da.label = dd["unit"], dd["label"]
        da.append_range_dimension_using_self()
    sec = nf.create_section("sec", "t")
    sub = sec.create_section("sub", "t")
    for p in P:
        pd = PROPDEFS[p]
        pr = (sec if p != 3 else sub).create_property(pd["name"], pd["values"])
        if pd["unit"]:
            pr.unit = pd["unit"]
        if pd["definition"]:
            pr.definition = pd["definition"]
    blk.metadata = sec
    content = read_content(nf)
    nf.close()
    return content


def read_content(nf):
    """What C18 says must read as before (order-insensitive for properties)."""
    out = {"blocks": [], "sections": {}}
    for b in nf.blocks:
        arrays = []
        for da in b.data_arrays:
            dims = []
            for dim in da.dimensions:
                k = dim.dimension_type.value
                d = {"kind": k}
                if k == "range":
                    d.update(ticks=[float(x) for x in dim.ticks], unit=dim.unit, label=dim.label)
                elif k == "sample":
                    d.update(interval=dim.sampling_interval, unit=dim.unit, label=dim.label)
                else:
                    d.update(labels=list(dim.labels))
                dims.append(d)
            arrays.append({"name": da.name, "data": np.asarray(da[:]).tolist(), "unit": da.unit, "label": da.label,
                           "dims": dims})
        out["blocks"].append({"name": b.name, "arrays": arrays,
                              "metadata": None if b.metadata is None else b.metadata.name})

    def walk(sec, prefix):
        props = {}
        for p in sec.props:
            props[p.name] = {"values": [v if not isinstance(v, (np.generic,)) else v.item() for v in p.values],
                             "unit": p.unit, "definition": p.definition}
        out["sections"][prefix + sec.name] = props
        for s in sec.sections:
            walk(s, prefix + sec.name + "/")
    for s in nf.sections:
        walk(s, "")
    return out


def downgrade(path, file0, P, D):
    """Turns the file written by the current library into the old representation the behaviour starts from."""
    import h5py
    from nixio.util import vlen_str_dtype as vlen
    with h5py.File(path, "a") as hf:
        hf.attrs["version"] = np.array(OLDVER, dtype=np.int32)
        if not file0["hasId"]:
            del hf.attrs["id"]
        for p in P:
            if file0["props"][str(p)] != "compound":
                continue
            pd = PROPDEFS[p]
            group = hf["metadata/sec/properties"] if p != 3 else hf["metadata/sec/sections/sub/properties"]
            old = group[pd["name"]]
            attrs = dict(old.attrs)
            vals = old[...]
            vdt = vlen if old.dtype.kind in "OSU" else old.dtype
            dt = np.dtype([("value", vdt), ("uncertainty", "f8"), ("reference", vlen), ("filename", vlen),
                           ("encoder", vlen), ("checksum", vlen)])
            arr = np.zeros((len(vals),), dtype=dt)
            for i, v in enumerate(vals):
                arr[i] = (v.decode() if isinstance(v, bytes) else v, pd["uncertainty"][i], pd["reference"][i], "", "", "")
            del group[pd["name"]]
            new = group.create_dataset(pd["name"], data=arr, dtype=dt, chunks=True, maxshape=(None,))
            for k, v in attrs.items():
                new.attrs[k] = v
        for d in D:
            if file0["dims"][str(d)] != "alias":
                continue
            da = hf["data/blk/data_arrays"][DIMDEFS[d]["name"]]
            dim = da["dimensions/1"]
            if "link" in dim:
                del dim["link"]
            daid = da.attrs["entity_id"]
            daid = daid.decode() if isinstance(daid, bytes) else daid
            dim[daid] = da


def representation(path, P, D):
    """The specification's state variables, read from the real file with h5py."""
    import h5py
    nixio = _W["nixio"]
    with h5py.File(path, "r") as hf:
        ver = tuple(int(x) for x in hf.attrs["version"])
        fid = hf.attrs.get("id")
        st = {"ver": "lib" if ver == tuple(nixio.file.HDF_FF_VERSION) else ("old" if ver == OLDVER else "other:%r" % (ver,)),
              "hasId": bool(fid) and nixio.util.is_uuid(fid.decode() if isinstance(fid, bytes) else fid),
              "props": {}, "dims": {}}
        for p in P:
            pd = PROPDEFS[p]
            group = hf["metadata/sec/properties"] if p != 3 else hf["metadata/sec/sections/sub/properties"]
            st["props"][str(p)] = "compound" if len(group[pd["name"]].dtype) else "plain"
        for d in D:
            dim = hf["data/blk/data_arrays"][DIMDEFS[d]["name"]]["dimensions/1"]
            st["dims"][str(d)] = "link" if "link" in dim else ("alias" if len(dim.keys()) else "neither")
    return st


def run_tool(path, kill_before_open):
    """file_upgrade in a child; the child dies (SIGKILL) when it is about to do its k-th append-mode open (None: never)."""
    rfd, wfd = os.pipe()
    pid = os.fork()
    if pid == 0:
        os.close(rfd)
        sys.stdout = open(os.devnull, "w")
        try:
            import h5py as real
            import nixio.cmd.upgrade as up

            class Shim:
                n = 0

                def __getattr__(self, name):
                    return getattr(real, name)

                def File(self, *a, **kw):
                    mode = kw.get("mode", a[1] if len(a) > 1 else "r")
                    if mode == "a":
                        Shim.n += 1
                        if kill_before_open is not None and Shim.n >= kill_before_open:
                            os.write(wfd, b"killed")
                            os.kill(os.getpid(), signal.SIGKILL)
                    return real.File(*a, **kw)
            up.h5py = Shim()
            ok = up.file_upgrade(path)
            os.write(wfd, b"returned:%d:%d" % (1 if ok else 0, Shim.n))
        except BaseException as exc:  # noqa
            os.write(wfd, ("error:%r" % exc).encode()[:300])
        os._exit(0)
    os.close(wfd)
    msg = b""
    while True:
        chunk = os.read(rfd, 1024)
        if not chunk:
            break
        msg += chunk
    os.close(rfd)
    os.waitpid(pid, 0)
    return msg.decode(errors="replace")


def sha(path):
    with open(path, "rb") as fh:
        return hashlib.sha256(fh.read()).hexdigest()


def expected_extras(content, P, file0):
    """Per-value extras of old properties must be retrievable after the upgrade (only for properties that were compound)."""
    extra = {}
    for p in P:
        if file0["props"][str(p)] != "compound":
            continue
        pd = PROPDEFS[p]
        sec = "sec" if p != 3 else "sec/sub"
        unc = pd["uncertainty"]
        if len(set(unc)) > 1:
            extra[(sec, pd["name"] + ".uncertainty")] = unc
        elif any(unc):
            extra[(sec, pd["name"], "attr_uncertainty")] = unc[0]
        if any(pd["reference"]):
            extra[(sec, pd["name"] + ".reference")] = pd["reference"]
    return extra


def _norm(st):
    """TLC prints a function over 1..n as a sequence: back to {"1": ..}"""
    out = dict(st)
    for k in ("props", "dims"):
        v = st.get(k)
        if isinstance(v, list):
            out[k] = {str(i + 1): x for i, x in enumerate(v)}
    return out


def replay_one(beh):
    nixio = _W["nixio"]
    _W["n"] += 1
    beh = {"init": _norm(beh["init"]), "schedule": [dict(a, _to=_norm(a["_to"])) for a in beh["schedule"]]}
    res = {"findings": [], "behaviours": 1, "runs": 0, "crashes": 0, "steps": 0}
    file0, sched = beh["init"], beh["schedule"]
    P = sorted(int(k) for k in file0["props"])
    D = sorted(int(k) for k in file0["dims"])
    path = os.path.join(_W["dir"], "up%d.nix" % (_W["n"] % 2))

    def finding(what, detail):
        res["findings"].append({"key": what, "detail": dict(detail, initial_file=file0), "replay": beh})

    content = build_new(nixio, path, P, D)
    downgrade(path, file0, P, D)
    got = representation(path, P, D)
    want0 = {"ver": "old", "hasId": file0["hasId"], "props": file0["props"], "dims": file0["dims"]}
    if got != want0:
        raise core.MachineryError("crafted file is not in the initial state: %r vs %r" % (got, want0))
    # split the behaviour into runs of the tool
    runs, cur = [], None
    for a in sched:
        if a["name"] == "Collect":
            cur = {"n": a["n"], "steps": 0, "end": "cut", "to": None}
            runs.append(cur)
        elif a["name"] == "Step":
            cur["steps"] += 1
        elif a["name"] in ("Crash", "Finish"):
            cur["end"] = a["name"]
        if cur is not None:
            cur["to"] = a["_to"]
    for r in runs:
        res["runs"] += 1
        res["steps"] += r["steps"]
        # a kill after the last step is indistinguishable from a completed run
        complete = r["end"] == "Finish" or r["steps"] == r["n"]
        msg = run_tool(path, None if complete else r["steps"] + 1)
        if complete:
            if not msg.startswith("returned:1"):
                finding("run/complete/tool_reports_%s" % msg.split(":")[0], {"message": msg, "run": r})
                return res
            nopen = int(msg.split(":")[2])
            if nopen != r["n"]:
                finding("run/steps_differ_from_plan", {"append_mode_opens": nopen, "planned_steps": r["n"]})
        else:
            res["crashes"] += 1
            if msg.startswith("returned"):
                # fewer steps than the specification planned: the kill point was never reached
                finding("run/steps_differ_from_plan", {"message": msg, "planned_steps": r["n"], "kill_before_open": r["steps"] + 1})
                return res
            if not msg.startswith("killed"):
                raise core.MachineryError("upgrade child: %s" % msg)
        got = representation(path, P, D)
        want = {k: r["to"][k] for k in ("ver", "hasId", "props", "dims")}
        if got != want:
            cls = "version_raised_early" if got["ver"] == "lib" and want["ver"] == "old" else "state_differs"
            finding("run/%s/after_%s" % (cls, "finish" if complete else "crash_after_%d_steps" % r["steps"]),
                    {"expected": want, "observed": got})
            return res
    final = runs[-1]["to"] if runs else None
    if final is None or final["ver"] != "lib":
        return res
    # the upgraded file: writable, nothing left to do, content as before, extras retrievable, re-run changes nothing
    try:
        import nixio.cmd.upgrade as up
        tasks = up.collect_tasks(path)[0]
        if tasks:
            finding("final/tasks_remain", {"tasks": [t.__doc__ for t in tasks]})
        nf = nixio.File.open(path, nixio.FileMode.ReadWrite)
    except Exception as exc:  # noqa
        finding("final/not_writable", {"raised": repr(exc)[:200]})
        return res
    try:
        after = read_content(nf)
        extras = expected_extras(content, P, file0)
        for key, val in extras.items():
            sec = after["sections"].get(key[0], {})
            if len(key) == 3:
                h = nf.sections["sec"] if key[0] == "sec" else nf.sections["sec"].sections["sub"]
                gotv = h.props[key[1]].uncertainty
                if gotv is None or float(gotv) != float(val):
                    finding("final/extra_lost/uncertainty_attr", {"property": key[1], "expected": val, "observed": gotv})
            else:
                gotp = sec.pop(key[1], None)
                if gotp is None or [x for x in gotp["values"]] != list(val):
                    finding("final/extra_lost/%s" % key[1].rsplit(".", 1)[1], {"property": key[1], "expected": val,
                                                                                "observed": gotp})
        if after != content:
            diffs = []
            for k in content["sections"]:
                if content["sections"][k] != after["sections"].get(k):
                    diffs.append(("section " + k, content["sections"][k], after["sections"].get(k)))
            for b0, b1 in zip(content["blocks"], after["blocks"]):
                for a0, a1 in zip(b0["arrays"], b1["arrays"]):
                    if a0 != a1:
                        diffs.append(("array " + a0["name"], a0, a1))
            finding("final/content_changed/%s" % (diffs[0][0].split()[0] if diffs else "other"),
                    {"first": repr(diffs[0])[:600] if diffs else repr(after)[:300]})
    finally:
        nf.close()
    before = sha(path)
    msg = run_tool(path, None)
    if not msg.startswith("returned:1:0") or sha(path) != before:
        finding("final/rerun_changes_file", {"message": msg, "bytes_changed": sha(path) != before})
    return res


def label(beh):
    return "behaviour/crashes=%d" % sum(1 for a in beh["schedule"] if a["name"] == "Crash")


class BehaviourRun(runner.ExportRun):
    """Collects the exported transitions, keeps the maximal behaviours, then replays those."""

    def run(self):
        seqs = []

        def cb(tx):
            if isinstance(tx, tuple) and tx and tx[0] == "TX":
                t = tx[1]
                last = dict(t["act"], _to=t["to"])
                seqs.append((t["init"], t["hist"], last))
        with core.Scratch("tlcu") as tmp:
            self.res = core.run_tlc(self.module, self.cfg, tmp, workers=1, export_cb=cb, timeout=self.timeout, coverage=False)
        if self.res.violation is None and self.res.rc != 0:
            raise core.MachineryError("TLC failed: %s" % "\n".join(self.res.log_tail[-10:]))
        # the post-state of every history prefix is known from the transition that produced it
        post = {}
        for init_, hist, last in seqs:
            post[json.dumps([init_, hist + [{k: v for k, v in last.items() if k != "_to"}]], sort_keys=True)] = last["_to"]
        full = {}
        for init_, hist, last in seqs:
            clean = hist + [{k: v for k, v in last.items() if k != "_to"}]
            full[json.dumps([init_, clean], sort_keys=True)] = (init_, clean)
        prefixes = set()
        for init_, clean in full.values():
            for k in range(1, len(clean)):
                prefixes.add(json.dumps([init_, clean[:k]], sort_keys=True))
        behaviours = []
        for key, (init_, clean) in sorted(full.items()):
            if key in prefixes:
                continue
            sched = []
            for k in range(1, len(clean) + 1):
                to = post.get(json.dumps([init_, clean[:k]], sort_keys=True))
                sched.append(dict(clean[k - 1], _to=to))
            if all(a["_to"] is not None for a in sched):
                behaviours.append({"init": init_, "schedule": sched})
        self.stats["exported"] = len(seqs)
        import multiprocessing as mp
        import shutil
        import tempfile
        rundir = tempfile.mkdtemp(prefix="nixverif-run-", dir=core.scratch_root())
        self.opts["rundir"] = rundir
        try:
            todo = [b for i, b in enumerate(behaviours) if self.stride <= 1 or (i + self.seed) % self.stride == 0]
            for b in todo:
                k = label(b)
                self.per_action[k] = self.per_action.get(k, 0) + 1
            self.samples = [{"initial_file": b["init"], "schedule": [dict((k, v) for k, v in a.items() if k != "_to")
                                                                    for a in b["schedule"]]} for b in todo[:2]]
            ctx = mp.get_context("fork")
            with ctx.Pool(self.nworkers, initializer=runner._init, initargs=("harness.c18", self.opts)) as pool:
                chunks = [todo[i::self.nworkers * 2] for i in range(self.nworkers * 2)]
                for out in pool.imap_unordered(runner._batch, [c for c in chunks if c]):
                    self._merge(out)
        finally:
            shutil.rmtree(rundir, ignore_errors=True)
        if self.errors:
            raise core.MachineryError("upgrade replay failed (%d): %s" % (len(self.errors), self.errors[0]))
        self.nbehaviours = len(behaviours)
        return self


def run(tier, seed, verdict):
    quick = tier != "thorough"
    with core.Scratch("c18l") as tmp:
        live = core.run_tlc("NixUpgrade", "MC_C18_live.cfg", tmp, workers=4, timeout=900, coverage=False)
    if live.violation is not None:
        verdict.violation("tlc/liveness/" + live.violation[:80], {"tlc": live.violation, "trace": live.error_trace[:60]})
    elif live.rc != 0:
        raise core.MachineryError("TLC (liveness) failed: %s" % "\n".join(live.log_tail[-10:]))
    runs = [BehaviourRun("NixUpgrade", "MC_C18_quick.cfg" if quick else "MC_C18.cfg", seed, "harness.c18",
                         stride=1 if quick else 1, label=label)]
    level, cov, assumptions = runner.assemble(
        "C18", verdict, runs,
        rule="old-format files = every combination of (file id present / missing) x (each property compound / already "
             "converted) x (each self-referencing range dimension alias / already a link), crafted with h5py from a file "
             "written by the current library; schedules = every maximal behaviour of the tool model with up to 2 kills "
             "placed between any two steps (before the first and after the last included) followed by re-runs; after "
             "every run the representation state read with h5py (version, id, per-property and per-dimension form) must "
             "equal the specification state; after completion: writable, collect_tasks empty, content equal to the "
             "content before down-conversion (properties compared by name), per-value extras retrievable, a further run "
             "leaves the bytes unchanged",
        assumptions=["interruption inside one conversion step is excluded by the property",
                     "old files are crafted (format 1.1.0: compound property datasets with value / uncertainty / reference / "
                     "filename / encoder / checksum, alias dimensions as a hard link to the array) - no writer for the old "
                     "format exists",
                     "liveness (Completes) is checked on the model under weak fairness with at most 2 crashes"],
        tlc_props=["VersionLast", "Idempotent", "OldStillRecognised", "Monotone", "PlanOK", "Completes (FairSpec)"],
        need=("behaviour/crashes=0", "behaviour/crashes=1", "behaviour/crashes=2", "runs", "crashes"),
        extra={"liveness_states": live.distinct, "maximal_behaviours": runs[0].nbehaviours if runs[0].res else None})
    cov["maximal_behaviours"] = runs[0].nbehaviours
    cov["states"] += live.distinct
    return level, cov, assumptions


def replay(path):
    with open(path) as fh:
        rec = json.load(fh)
    with core.Scratch("c18r") as tmp:
        init({"seed": 0, "rundir": tmp})
        res = replay_one(rec["replay"])
    hit = False
    for f in res["findings"]:
        print("MISMATCH key=%s\n  %s" % (f["key"], json.dumps(f["detail"], default=repr)[:800]))
        hit = hit or f["key"] == rec["key"]
    print("recorded key %s: %s" % (rec["key"], "REPRODUCED" if hit else "not reproduced"))
    if hit:
        print("VIOLATION property=C18 replay=%s" % path)
    return 1 if hit else 0
