# -*- coding: utf-8 -*-
"""C02 - close + reopen reproduces the complete observable state."""
from . import modelreplay as mr
from .modelcheck import run_property


def run(tier, seed, verdict):
    quick = tier != "thorough"
    runs = [mr.ModelRun("MC_Sess_quick.cfg" if quick else "MC_C02.cfg", seed, probes=("dead_ids", "reopen"),
                        name_pools=[0, 1, 2, 4], stride=3 if quick else 40),
            mr.ModelRun("MC_Sess_links_quick.cfg" if quick else "MC_C02_links.cfg", seed + 1, probes=("reopen",),
                        name_pools=[0, 2], stride=1),
            # link, unlink, link again on a small block: link lists that become empty in between
            mr.ModelRun("MC_C02_relink4.cfg", seed + 2, probes=("reopen",), name_pools=[0, 1], stride=1),
            # random walks (TLC -simulate): calls repeated, undone and redone inside one session, long-lived handles warm
            mr.ModelRun("MC_SimSmall.cfg", seed + 3, probes=("dead_ids", "reopen"), name_pools=[0, 1, 2],
                        simulate="num=%d" % (40 if quick else 400), depth=32),
            mr.ModelRun("MC_SimChurn.cfg", seed + 4, probes=("dead_ids", "reopen"), name_pools=[0, 3, 5],
                        simulate="num=%d" % (40 if quick else 400), depth=32)]
    return run_property(
        "C02", verdict, runs, require_actions=("SetAttr:ok", "WriteData:ok", "Delete:ok", "LinkAppend:ok", "SetRole:ok"),
        tlc_props=["TypeOK", "NoDangling", "IdNameStable"],
        rule="after every replayed transition the file is closed and reopened read-only and read-write; both "
             "projections (all entities, order, attributes incl. None/empty/non-ASCII values, data, link lists, role "
             "links, timestamps) must equal the specification state, which is also what was observable before closing; "
             "calls are issued through a seeded mix of long-lived handles and fresh lookups",
        assumptions=["dimension descriptors and frames are covered by their own modules",
                     "HDF5-internal layout and objects unreachable through the public API are not compared"])


def replay(path):
    return mr.replay_file(path)
