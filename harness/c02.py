# -*- coding: utf-8 -*-
"""C02 - close + reopen reproduces the complete observable state."""
from . import modelreplay as mr
from .modelcheck import run_property


def run(tier, seed, verdict):
    quick = tier != "thorough"
    runs = [mr.ModelRun("MC_Sess_quick.cfg" if quick else "MC_C02_quick.cfg", seed, probes=("dead_ids", "reopen", "attrs"),
                        name_pools=[0, 1, 2, 4], stride=5 if quick else 16),
            mr.ModelRun("MC_Sess_links_quick.cfg" if quick else "MC_C02_links.cfg", seed + 1, probes=("reopen", "attrs"),
                        name_pools=[0, 2], stride=1 if quick else 3),
            # link, unlink, link again on a small block: link lists that become empty in between
            mr.ModelRun("MC_C02_relink4.cfg", seed + 2, probes=("reopen",), name_pools=[0, 1], stride=2 if quick else 1),
            # random walks (TLC -simulate): calls repeated, undone and redone inside one session, long-lived handles warm
            mr.ModelRun("MC_SimSmall.cfg", seed + 3, probes=("dead_ids", "reopen"), name_pools=[0, 1, 2],
                        simulate="num=%d" % (40 if quick else 150), depth=32),
            mr.ModelRun("MC_SimChurn.cfg", seed + 4, probes=("dead_ids", "reopen"), name_pools=[0, 3, 5],
                        simulate="num=%d" % (40 if quick else 150), depth=32)]
    level, cov, assumptions = run_property(
        "C02", verdict, runs, require_actions=("SetAttr:ok", "WriteData:ok", "Delete:ok", "LinkAppend:ok", "SetRole:ok"),
        tlc_props=["TypeOK", "NoDangling", "IdNameStable"],
        rule="after every replayed transition the file is closed and reopened read-only and read-write; both "
             "projections (all entities, order, attributes incl. None/empty/non-ASCII values, data, link lists, role "
             "links, timestamps) must equal the specification state, which is also what was observable before closing; "
             "calls are issued through a seeded mix of long-lived handles and fresh lookups",
        assumptions=["the descriptive attributes the entity-graph model does not carry (label, unit, calibration, dimension "
                     "descriptors, tag position / extent / units, section reference / repository, property unit / "
                     "uncertainty / reference / dependency / value origin, frame units) are set to seeded values on the "
                     "reached state and compared with themselves across close + reopen (probe 'attrs')",
                     "data frames and property value lists: the reopen facet of the NixFrame / NixMeta replays (C16, C10)",
                     "HDF5-internal layout and objects unreachable through the public API are not compared"])
    # arrays with their dimension descriptors (own ticks / labels, links, units, labels): the reopen facet of NixDimLink
    from . import runner, dimlink, c05, core
    drun = runner.ExportRun("MC_NixDimLink", "MC_C05_dims_quick.cfg", seed, "harness.dimlink", opts={"ranks": c05.RANKS},
                            stride=10 if quick else 3,
                            label=lambda tx: dimlink.klass(tx["act"]) + ":" + tx["act"]["out"]).run()
    for f in drun.findings:
        if f.get("stage", "").startswith("reopen") and f["owner"] != "C12":
            verdict.violation(f["key"], f["detail"], f["replay"])
    if not drun.stats["replayed"]:
        raise core.MachineryError("no dimension-descriptor transition replayed")
    n = drun.stats["replayed"] - drun.counters.get("truncated", 0)
    cov["states"] += drun.res.distinct
    cov["transitions"] += drun.stats["exported"]
    cov["evaluations"] += drun.stats["replayed"]
    cov["traces_validated_against_impl"] += n
    cov["distinct_nontrivial"] += n
    cov["dimension_descriptors_reopened"] = n
    cov["checker_cmd"] += " ;; " + drun.res.cmd
    cov["rule"] += "; dimension descriptors: every NixDimLink transition (own ticks / labels, unit, label, links with every " \
                   "index specification, unlink, delete) is followed by close + reopen in both modes"
    return level, cov, assumptions


def replay(path):
    import json
    with open(path) as fh:
        rec = json.load(fh)
    if isinstance(rec.get("replay"), dict) and rec["replay"].get("engine") == "NixDimLink":
        from . import dimlink
        return dimlink.replay_record(rec, "C02")
    return mr.replay_file(path)
