# -*- coding: utf-8 -*-
"""C20 - copies are complete, independent, and keep their internal links."""
from . import modelreplay as mr
from .modelcheck import run_property


def run(tier, seed, verdict):
    quick = tier != "thorough"
    probes = ("reopen", "lookups", "xcopy")
    runs = [mr.ModelRun("MC_C20_quick.cfg" if quick else "MC_C20.cfg", seed, probes=probes, name_pools=[0, 1, 2],
                        stride=2 if quick else 3),
            mr.ModelRun("MC_C20_mut.cfg", seed + 1, probes=probes, name_pools=[0, 2], stride=6 if quick else 1)]
    # an id-keeping duplicate inside the block (two entities, one id), then - among all single calls - the fresh-id
    # copy of the whole block
    runs.append(mr.ModelRun("MC_C20_dupid.cfg", seed + 3, probes=("reopen", "lookups"), name_pools=[0, 1], stride=1,
                            accept=lambda tx: len(tx["hist"]) >= 20 and tx["act"]["name"] in ("Copy", "SetAttr", "WriteData")))
    if not quick:
        runs.append(mr.ModelRun("MC_C20_keep.cfg", seed + 2, probes=("reopen", "xcopy"), name_pools=[0, 1], stride=1))
    return run_property(
        "C20", verdict, runs, require_actions=("Copy:ok", "Copy:refused:NameExists", "SetAttr:ok", "Delete:ok", "WriteData:ok"),
        tlc_props=["CopyComplete (same content recursively, internal links remapped, ids kept or fresh, nothing else changes)",
                   "CopyIndependent", "EidUnique / FreshIdsUnique", "RefusedUnchanged", "DeleteFrame", "NoDangling"],
        also_own=lambda f: f["facet"] != "time",
        rule="after a scripted prefix (a block with a group member list, tag reference + feature, multi-tag with positions "
             "and extents, nested sources linked from an array; a section tree with a property; an empty second block) TLC "
             "generates every copy of a block / link-free array / tag / section / property into every legal parent under "
             "every name (refused when the name exists) followed by every single mutation, link change or delete on "
             "either side; a second configuration starts from the block and the section tree already copied and applies "
             "every single mutation; each transition is replayed, the new entities are bound by primary path, the full "
             "projection (ids via an injective registry) compared in the session and after reopen, every container of the "
             "copy probed by name / id / index, and one entity per state copied into a second file with either id policy "
             "(content, fresh/kept ids, returned handle, change of one side not visible on the other)",
        assumptions=["links that leave the copied subtree are left open (the library duplicates the target privately): copies "
                     "are generated only for subtrees closed under links, so a multi-tag or a tag with references is copied "
                     "only as part of its block",
                     "id-keeping copies inside one file are explored only in the thorough tier without deletes: two entities "
                     "with one id in one file are a recorded design-level finding (delete goes by id)",
                     "cell contents of copied data frames: the cross-file / same-file copy probe compares them (xcopy); the "
                     "entity model carries a frame's identity, attributes and links"])


def replay(path):
    return mr.replay_file(path)
