# -*- coding: utf-8 -*-
"""C15 - calibration is applied on every read and never touches the stored values."""
from . import arrayreplay as ar
from .c01 import assemble


def run(tier, seed, verdict):
    quick = tier != "thorough"
    runs = [ar.ArrayRun("MC_C15_quick.cfg" if quick else "MC_C15.cfg", seed, "calib", stride=1 if quick else 2)]
    # ... and through tags / multi-tags / tagged features: the tagging vectors over calibrated arrays
    from . import runner, c08, core
    trun = runner.ExportRun("MC_NixTagging", "MC_C08_r1_quick.cfg", seed, "harness.c08", opts={"calibrated": True},
                            stride=6 if quick else 1, label=c08.label, batch=200).run()
    if trun.res.violation is not None:
        verdict.violation("tlc/NixTagging/" + trun.res.violation[:80], {"tlc": trun.res.violation})
    for f in trun.findings:
        verdict.violation("calibrated_" + f["key"], f["detail"], f.get("replay"))
    if not trun.counters.get("vectors"):
        raise core.MachineryError("no calibrated tagging vector executed")
    level, cov, assumptions = assemble(
        "C15", verdict, runs, lambda f: True,
        ["CalibrationLeavesRaw", "RefusedUnchanged", "AssignFrame"],
        "set / change / clear sequences of coefficient lists (length 0-5, zeros included) and origins (None, 0, non-zero) "
        "interleaved with writes and region assignments; raw values are the small integers the specification assigns to "
        "stamps, so TLC evaluates the polynomial exactly and exports the expected calibrated value of every cell; after "
        "every step every read path (whole, region, element, read_direct, views via [:] and numpy conversion, "
        "iteration) through two long-lived handles and a fresh one must return those doubles (dtype float64 iff "
        "calibrated, the stored element type otherwise) while the stored dataset keeps the raw values",
        ["floating-point rounding for large values is outside the generated domain",
         "tag / multi-tag / tagged-feature reads: the rank-1 vectors of NixTagging executed on arrays with coefficients "
         "(1, 2) and origin 0.5"],
        ("SetCoef:ok", "SetOrigin:ok", "Assign:ok", "WriteAll:ok"))
    cov["states"] += trun.res.distinct
    cov["transitions"] += trun.stats["exported"]
    cov["evaluations"] += trun.stats["replayed"]
    cov["traces_validated_against_impl"] += trun.stats["replayed"]
    cov["distinct_nontrivial"] += trun.stats["replayed"]
    cov["tag_reads_on_calibrated_arrays"] = {"vectors": trun.counters.get("vectors"), "calls": trun.counters.get("calls")}
    cov["checker_cmd"] += " ;; " + trun.res.cmd
    return level, cov, assumptions


def replay(path):
    return ar.replay_file(path, "C15")
