# -*- coding: utf-8 -*-
"""C15 - calibration is applied on every read and never touches the stored values."""
from . import arrayreplay as ar
from .c01 import assemble


def run(tier, seed, verdict):
    quick = tier != "thorough"
    runs = [ar.ArrayRun("MC_C15_quick.cfg" if quick else "MC_C15.cfg", seed, "calib", stride=1 if quick else 2)]
    return assemble(
        "C15", verdict, runs, lambda f: True,
        ["CalibrationLeavesRaw", "RefusedUnchanged", "AssignFrame"],
        "set / change / clear sequences of coefficient lists (length 0-5, zeros included) and origins (None, 0, non-zero) "
        "interleaved with writes and region assignments; raw values are the small integers the specification assigns to "
        "stamps, so TLC evaluates the polynomial exactly and exports the expected calibrated value of every cell; after "
        "every step every read path (whole, region, element, read_direct, views via [:] and numpy conversion, "
        "iteration) through two long-lived handles and a fresh one must return those doubles (dtype float64 iff "
        "calibrated, the stored element type otherwise) while the stored dataset keeps the raw values",
        ["floating-point rounding for large values is outside the generated domain",
         "tag / multi-tag read paths are covered by the tagging check (C08)"],
        ("SetCoef:ok", "SetOrigin:ok", "Assign:ok", "WriteAll:ok"))


def replay(path):
    return ar.replay_file(path, "C15")
