# -*- coding: utf-8 -*-
"""C13 - tree searches, parents and 'referring' lists reflect the stored structure."""
from . import modelreplay as mr
from .modelcheck import run_property


def run(tier, seed, verdict):
    quick = tier != "thorough"
    runs = [mr.ModelRun("MC_C13_quick.cfg", seed, probes=("searches",),
                        name_pools=[0, 1, 2, 4], stride=5 if quick else 1),
            mr.ModelRun("MC_C13_links.cfg", seed + 1, probes=("searches",), name_pools=[0, 2],
                        stride=3 if quick else 1)]
    return run_property(
        "C13", verdict, runs, require_actions=("Create:ok", "Delete:ok", "SetRole:ok", "LinkAppend:ok"),
        tlc_props=["SearchSound (each entity once, only below the root, unlimited = whole subtree)",
                   "SearchMonotone (a larger limit extends the smaller result)"],
        rule="TLC builds every tree of up to 5/6 sections and sources over 2 names (repeated names across subtrees and "
             "levels) and, in a second configuration, every metadata / source link assignment after a scripted prefix; "
             "for every reached state it exports the breadth-first result of every search (every root: file, block, "
             "section, source; limits 0..4 and none); the probe runs each search (plus per-name filters), every "
             "parent / parent_source / parent_block and every referring_* list on handles kept from creation and, "
             "after reopening, on fresh handles",
        assumptions=["find_*(limit=0) on a File or Block returns the top level (follows the code; left open)",
                     "referring lists are compared as sets (the property demands the inverse of the links, not an order)"])


def replay(path):
    return mr.replay_file(path)
