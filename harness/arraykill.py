# -*- coding: utf-8 -*-
"""
C17, array part: a NixArray history (create / write / region assignment / append / resize, any element type,
compression triple) is replayed in a forked child, which calls flush() or close() and is SIGKILLed right afterwards;
the parent opens the file read-only and read-write and compares every read path with the specification state.
"""
import json
import os
import signal
import zlib

from . import core
from . import arrayreplay as ar

_W = {}


def init(opts):
    _W["opts"] = opts
    _W["nixio"] = core.import_nixio()
    _W["dir"] = os.path.join(opts["rundir"], "k%d" % os.getpid())
    os.makedirs(_W["dir"], exist_ok=True)
    _W["n"] = 0


def _conc_for(tx, seed):
    h = zlib.crc32(json.dumps(tx["act"], sort_keys=True).encode()) + 17 * len(tx["hist"])
    return ar.ArrConc((seed * 7919 + h) % (2 ** 31), "values")


def run_one(nixio, tx, conc, path, how):
    """returns (status, findings)"""
    findings = []
    rfd, wfd = os.pipe()
    pid = os.fork()
    if pid == 0:
        os.close(rfd)
        code = b"ok"
        try:
            sess = ar.ArrSession(nixio, path, conc)
            for a in tx["hist"] + [tx["act"]]:
                exc = sess.apply(a)
                if (exc is None) != (a["out"] == "ok"):
                    code = b"diverged"
                    break
                if how == "flush_each":
                    sess.nf.flush()        # a flush after every call: the last one follows the last call only
            if code == b"ok":
                # what the writer itself sees must already be the specification state; a mismatch here is a
                # storage-fidelity matter (C01 reports it), not a durability one
                pre = []
                ar.check_state(sess, tx["to"], pre, "state", tx)
                if pre:
                    code = b"diverged"
            if code == b"ok":
                if how in ("flush", "flush_each"):
                    sess.nf.flush()
                else:
                    sess.nf.close()
        except BaseException as exc:  # noqa
            code = ("error:%r" % exc).encode()[:300]
        os.write(wfd, code)
        os.close(wfd)
        os.kill(os.getpid(), signal.SIGKILL)
        os._exit(9)
    os.close(wfd)
    msg = b""
    while True:
        chunk = os.read(rfd, 4096)
        if not chunk:
            break
        msg += chunk
    os.close(rfd)
    _, status = os.waitpid(pid, 0)
    if not os.WIFSIGNALED(status):
        raise core.MachineryError("array child was not killed")
    msg = msg.decode(errors="replace")
    if msg.startswith("error"):
        raise core.MachineryError("array child failed: " + msg)
    if msg != "ok":
        return "diverged", findings
    st = tx["to"]
    for mode, label in ((nixio.FileMode.ReadOnly, "ro"), (nixio.FileMode.ReadWrite, "rw")):
        post = []
        try:
            nf = nixio.File.open(path, mode)
        except Exception as exc:  # noqa
            findings.append({"key": "array/kill_after_%s/reopen_%s_raises" % (how, label),
                             "detail": {"raised": repr(exc)[:200], "conc": conc.describe()}})
            return "checked", findings
        try:
            sess = ar.ArrSession.__new__(ar.ArrSession)
            sess.nixio, sess.conc, sess.path, sess.nf = nixio, conc, path, nf
            sess.blk = nf.blocks["blk"]
            if st["made"]:
                sess.A = sess.blk.data_arrays["arr"]
                sess.B = sess.blk.data_arrays[0]
            else:
                sess.A = sess.B = None
            ar.check_state(sess, st, post, "kill_after_%s/reopen_%s" % (how, label), tx)
        except Exception as exc:  # noqa
            findings.append({"key": "array/kill_after_%s/reopen_%s/read_raises" % (how, label),
                             "detail": {"raised": repr(exc)[:200], "conc": conc.describe()}})
        finally:
            try:
                nf.close()
            except Exception:  # noqa
                pass
        for f in post[:2]:
            findings.append({"key": "array/" + ar.key_of(f), "detail": dict(f["detail"], conc=conc.describe())})
        if post:
            break
    return "checked", findings


def replay_one(tx):
    opts = _W["opts"]
    _W["n"] += 1
    conc = _conc_for(tx, opts["seed"])
    path = os.path.join(_W["dir"], "k%d.nix" % (_W["n"] % 3))
    how = ("flush", "close", "flush_each")[(_W["n"] + opts["seed"]) % 3]
    res = {"findings": [], "truncated": 0, "array_kills": 0, "calls": len(tx["hist"]) + 1}
    status, findings = run_one(_W["nixio"], tx, conc, path, how)
    if status == "diverged":
        res["truncated"] = 1
    else:
        res["array_kills"] = 1
    for f in findings:
        f["owner"] = "C17"
        f["replay"] = {"engine": "NixArray+kill", "hist": tx["hist"], "act": tx["act"], "to": tx["to"], "how": how,
                       "seed": opts["seed"]}
        res["findings"].append(f)
    return res


def replay_record(rec):
    rp = rec["replay"]
    nixio = core.import_nixio()
    tx = {"hist": rp["hist"], "act": rp["act"], "to": rp["to"]}
    conc = _conc_for(tx, rp["seed"])
    with core.Scratch("akr") as tmp:
        status, findings = run_one(nixio, tx, conc, os.path.join(tmp, "k.nix"), rp["how"])
    hit = False
    for f in findings:
        print("MISMATCH key=%s\n  %s" % (f["key"], json.dumps(f["detail"], default=repr)[:700]))
        hit = hit or f["key"] == rec["key"]
    print("recorded key %s: %s" % (rec["key"], "REPRODUCED" if hit else "not reproduced"))
    if hit:
        print("VIOLATION property=C17 replay=<file>")
    return 1 if hit else 0
