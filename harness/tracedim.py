# -*- coding: utf-8 -*-
"""
Binding B for NixDimLink (code -> specification): a seeded random driver works on the dimension descriptors of one
array and on their link targets - a vector, two matrices and a data frame, up to four descriptors, three value
tokens, refused calls with probability 1/4 - and records one ndjson line per call (after it returned or raised): the
call with its abstract arguments, the outcome class, what every descriptor reports and the targets, both in the
specification's own tokens (recovered by the inverse concretisation; anything that is not a pool value becomes a
token the specification cannot produce).  NixDimLinkTrace.tla then has to explain every line with the NixDimLink
action the call maps to.  A rejected log names the first unexplained line.
"""
import json
import os
import random
import re

import numpy as np

from . import core
from . import dimlink as dl

RANKS = {"t1": 1, "t2": 2, "t3": 2, "fr": 0}
MAXDIMS = 4
TOKS = (1, 2, 3)
BAD = -7          # a token no specification state contains

# a third token for every pool (the replay binding uses two)
dl.LABELS.setdefault(3, "Drittes")
dl.UNITS.setdefault(3, "s")
dl.OWN_TICKS.setdefault(3, [2.0, 2.5])
dl.OWN_LABELS.setdefault(3, ["x"])

GOOD = {1: [[-1]], 2: [[-1, 0], [-1, 1], [-1, 2], [0, -1], [1, -1]], 0: [[0], [1]]}
BADIDX = {1: [[], [0], [-1, -1], [-1, 0]], 2: [[-1], [-1, -1], [0, 1], [-1, -2], [0, -1, 0]], 0: [[2], [-1]]}
BAD_APPENDS = [("sampled", "interval_text"), ("sampled", "unit_type"), ("sampled", "label_type"),
               ("range", "ticks_unsorted"), ("range", "ticks_text"), ("range", "unit_type"), ("range", "label_type"),
               ("set", "labels_nonstring")]


def inv(pool, value):
    for k, v in pool.items():
        if v == value:
            return k
    return BAD


def data_token(rank, data):
    try:
        arr = np.asarray(data, dtype=float)
        tok = int(round(float(arr.flat[0]) / 10.0))
        if np.array_equal(arr, dl.target_data(None, rank, tok)):
            return tok
    except Exception:  # noqa
        pass
    return BAD


def report(sess, hint=None):
    """
    What the descriptors report and the targets, in specification tokens.  The library offers no public way from a
    link to the identity of its target: the target is recovered by content (the vector the link yields, for range
    dimensions also unit and label, must be the current ones of that target); `hint` - the target the driver asked
    for last at that position - only decides between targets with identical content.
    """
    hint = hint or {}
    rep = []
    host = sess.host if sess.rnd.random() < 0.5 else sess.host_b
    tg = {}
    for t, rank in RANKS.items():
        h = sess.target(t)
        if rank == 0:
            tg[t] = {"data": data_token(0, [[float(r[c]) for c in dl.COLNAMES] for r in h[:]]),
                     "unit": [inv(dl.UNITS, u or None) for u in h.units], "label": 0}
        else:
            tg[t] = {"data": data_token(rank, h[:]), "unit": inv(dl.UNITS, h.unit), "label": inv(dl.LABELS, h.label)}
    for pos, dim in enumerate(host.dimensions):
        p = dl.project_dim(dim)
        d = {"k": p["kind"], "linked": bool(p["linked"] is True)}
        frame_linked = False
        if d["linked"]:
            idx = p["index"] if isinstance(p["index"], list) else [BAD]
            clean = ("link_values_differ" not in p and "link_attrs_differ" not in p and "index_of_last_tick" not in p
                     and isinstance(p["values"], list))
            cands = []
            for t, rank in RANKS.items():
                tok = tg[t]["data"]
                if tok == BAD or len(idx) != max(rank, 1):
                    continue
                try:
                    if p["values"] != dl.vector(rank, tok, idx):
                        continue
                except Exception:  # noqa
                    continue
                if p["kind"] == "range":
                    if rank == 0:
                        if inv(dl.UNITS, p["unit"]) != tg[t]["unit"][idx[0]] or p["label"] != dl.COLNAMES[idx[0]]:
                            continue
                    elif inv(dl.UNITS, p["unit"]) != tg[t]["unit"] or inv(dl.LABELS, p["label"]) != tg[t]["label"]:
                        continue
                cands.append(t)
            if clean and cands:
                t = hint.get(pos) if hint.get(pos) in cands else cands[0]
                d["values"] = {"src": "vector", "t": t, "data": tg[t]["data"], "idx": idx}
                frame_linked = RANKS[t] == 0
            else:
                d["values"] = {"src": "vector", "t": hint.get(pos) or "t1", "data": BAD, "idx": idx}
            d["idx"] = idx
        else:
            if p["kind"] == "range":
                tok = 0 if p["values"] == [] else inv(dl.OWN_TICKS, p["values"])
            elif p["kind"] == "set":
                tok = 0 if p["values"] == [] else inv(dl.OWN_LABELS, p["values"])
            else:
                tok = 0
            d["values"] = {"src": "own", "tok": tok}
            d["idx"] = []
        if p["kind"] == "range" and frame_linked:
            d["label"] = 10 + dl.COLNAMES.index(p["label"]) if p["label"] in dl.COLNAMES else BAD
        else:
            d["label"] = inv(dl.LABELS, p["label"])
        d["unit"] = 0 if p["kind"] == "set" else inv(dl.UNITS, p["unit"])
        rep.append(d)
    return rep, tg


def record(nixio, path, seed, ntraces, nevents, out):
    rnd = random.Random(seed)
    lines = 0
    for tid in range(ntraces):
        sess = dl.Session(nixio, path, RANKS, rnd.randrange(2 ** 31))
        hint = {}
        rep, tg = report(sess, hint)
        out.write(json.dumps({"tid": tid, "act": {"call": "reset", "out": "ok"}, "report": rep, "targets": tg}) + "\n")
        lines += 1
        for _ in range(nevents):
            n = len(rep)
            fault = rnd.random() < 0.25
            calls = ["write_target", "write_target"]
            if n < MAXDIMS:
                calls += ["append", "append", "append_bad"] if n else ["append"] * 4
            if n:
                calls += ["set_own", "set_attr", "set_attr", "link", "link", "link", "unlink", "set_unordered"]
                if rnd.random() < 0.15:
                    calls.append("delete_dims")
            call = rnd.choice(calls)
            act, spec = {"call": call}, None
            if call == "append":
                act["k"] = rnd.choice(["sampled", "range", "set"])
                spec = {"name": "AppendDim", "k": act["k"]}
            elif call == "append_bad":
                act["k"], act["why"] = rnd.choice(BAD_APPENDS)
                spec = {"name": "AppendDimBad", "k": act["k"], "why": act["why"]}
            elif call == "set_own":
                cands = [i for i, d in enumerate(rep) if d["k"] in ("range", "set")]
                if not cands:
                    continue
                i = rnd.choice(cands)
                act.update(i=i + 1, v=rnd.choice(TOKS))
                spec = {"name": "SetOwn", "i": i + 1, "k": rep[i]["k"], "v": act["v"]}
            elif call == "set_unordered":
                cands = [i for i, d in enumerate(rep) if d["k"] == "range"]
                if not cands:
                    continue
                act["i"] = rnd.choice(cands) + 1
                spec = {"name": "SetTicksUnordered", "i": act["i"]}
            elif call == "set_attr":
                i = rnd.randrange(n)
                f = "lab" if rep[i]["k"] == "set" else rnd.choice(["lab", "un"])
                act.update(i=i + 1, f=f, v=rnd.choice(TOKS))
                spec = {"name": "SetAttr", "i": i + 1, "f": f, "v": act["v"]}
            elif call == "link":
                i = rnd.randrange(n)
                t = rnd.choice(sorted(RANKS))
                pool = BADIDX if (fault and rep[i]["k"] != "sampled") else GOOD
                act.update(i=i + 1, t=t, idx=rnd.choice(pool[RANKS[t]]))
                spec = {"name": "Link", "i": i + 1, "t": t, "idx": act["idx"]}
            elif call == "unlink":
                cands = [i for i, d in enumerate(rep) if d["linked"]]
                i = rnd.randrange(n) if (fault or not cands) else rnd.choice(cands)
                act["i"] = i + 1
                spec = {"name": "Unlink", "i": i + 1}
            elif call == "write_target":
                t = rnd.choice(sorted(RANKS))
                f = "data" if RANKS[t] == 0 else rnd.choice(["data", "data", "unit", "label"])
                cur = tg[t][f]
                vals = [v for v in ((1, 2, 3) if f == "data" else (0, 1, 2, 3)) if v != cur]
                act.update(t=t, f=f, v=rnd.choice(vals))
                spec = {"name": "WriteTarget", "t": t, "f": f, "v": act["v"]}
            else:
                spec = {"name": "DeleteDims"}
            exc = sess.apply(spec)
            act["out"] = "ok" if exc is None else "refused"
            if exc is not None:
                act["raised"] = type(exc).__name__
            elif call == "link":
                hint[act["i"] - 1] = act["t"]
            elif call == "delete_dims":
                hint = {}
            rep, tg = report(sess, hint)
            out.write(json.dumps({"tid": tid, "act": act, "report": rep, "targets": tg}) + "\n")
            lines += 1
        sess.close()
    return lines


def validate(logpath, tmp):
    res = core.run_tlc("MC_NixDimLinkTrace", "MC_C05_trace.cfg", tmp, workers=1, timeout=1800, coverage=False,
                       env_extra={"TRACE_FILE": logpath}, heap="4g")
    text = "\n".join(res.log_tail)
    m = re.search(r'"TRACE-REJECTED-AT-LINE", (\d+)', text)
    if m:
        return False, int(m.group(1)), res
    if res.violation is not None or res.rc != 0:
        return False, None, res
    return True, None, res


def run_binding_b(seed, ntraces, nevents, verdict, selftest=True):
    """Records, validates; then corrupts one recorded field and shows that the corrupted log is rejected."""
    nixio = core.import_nixio()
    info = {}
    with core.Scratch("tracedim") as tmp:
        log = os.path.join(tmp, "dimlink.ndjson")
        with open(log, "w") as out:
            n = record(nixio, os.path.join(tmp, "t.nix"), seed, ntraces, nevents, out)
        ok, line, res = validate(log, tmp)
        info.update(lines=n, traces=ntraces, accepted=ok, tlc_states=res.distinct, tlc_wall_s=round(res.wall, 1))
        lines = open(log).read().splitlines()
        calls = {}
        for x in lines:
            a = json.loads(x)["act"]
            key = "%s:%s" % (a["call"], a["out"])
            calls[key] = calls.get(key, 0) + 1
        info["calls"] = dict(sorted(calls.items()))
        if not ok:
            if line is None:
                if res.violation and "TRACE-REJECTED" not in (res.violation or ""):
                    verdict.violation("trace/dimlink/tlc_property_violated/" + res.violation[:60],
                                      {"tlc": res.violation, "trace": res.error_trace[:30]})
                else:
                    raise core.MachineryError("trace validation failed without a position: %s" % "\n".join(res.log_tail[-12:]))
            else:
                bad = json.loads(lines[line - 1]) if 0 < line <= len(lines) else {}
                prev = json.loads(lines[line - 2]) if line >= 2 else {}
                first = max(i for i in range(line) if json.loads(lines[i])["act"]["call"] == "reset")
                verdict.violation("trace/dimlink/unexplained/%s/%s" % (bad.get("act", {}).get("call"), bad.get("act", {}).get("out")),
                                  {"line": line, "event": bad.get("act"), "logged_report": bad.get("report"),
                                   "logged_targets": bad.get("targets"), "report_before": prev.get("report")},
                                  {"engine": "NixDimLinkTrace", "trace": [json.loads(x) for x in lines[first:line]]})
        info["sample"] = [json.loads(x)["act"] for x in lines[1:6]]
        if ok and selftest:
            # demonstration of the binding: one logged value changed -> the log must be rejected exactly there
            k = next(i for i, x in enumerate(lines) if any(d["linked"] for d in json.loads(x)["report"]))
            ev = json.loads(lines[k])
            d = next(d for d in ev["report"] if d["linked"])
            d["values"]["data"] = d["values"]["data"] % 3 + 1
            lines2 = list(lines)
            lines2[k] = json.dumps(ev)
            log2 = os.path.join(tmp, "dimlink_corrupt.ndjson")
            open(log2, "w").write("\n".join(lines2) + "\n")
            ok2, line2, _ = validate(log2, tmp)
            info["corrupted_log_rejected_at"] = line2
            if ok2 or line2 != k + 1:
                raise core.MachineryError("binding self-test: corrupted log (line %d) was not rejected there (%s, %s)" % (k + 1, ok2, line2))
    return info
