# -*- coding: utf-8 -*-
"""
C11 - open modes and format-version gating protect existing files.

(1) NixOpen.tla: every (file on disk: missing / header [format tag, version triple, id]) x open mode vector with the
    expected outcome class; TLC checks WritableImpliesReadable, OverwriteEmpties, OthersKeep, CreateOnlyIfMissing,
    MinorMonotone, ForeignRefused; each vector is executed on a file crafted with h5py.
(2) NixSession.tla x NixModel.tla: read-only sessions placed by TLC at every point of write histories; the
    transition's own mutator is attempted in the read-only session and must fail iff it would change the state;
    sha256 of the file before/after the session, projection in the session = projection in a writable session.
"""
import gc
import json
import os
import shutil

import numpy as np

from . import core
from . import runner
from . import sessions

_W = {}


def init(opts):
    _W["opts"] = opts
    _W["nixio"] = nixio = core.import_nixio()
    _W["dir"] = os.path.join(opts["rundir"], "o%d" % os.getpid())
    os.makedirs(_W["dir"], exist_ok=True)
    base = os.path.join(_W["dir"], "base.nix")
    nf = nixio.File.open(base, nixio.FileMode.Overwrite)
    b = nf.create_block("keep", "t")
    b.create_data_array("a", "t", data=[1.0, 2.0])
    nf.create_section("meta", "t")
    _W["base_id"] = nf.id
    nf.close()
    _W["base"] = base
    _W["n"] = 0


def replay_one(vec):
    import h5py
    import uuid
    nixio = _W["nixio"]
    cfg, mode, r = vec["cfg"], vec["q"]["mode"], vec["r"]
    lib = tuple(vec["lib"])
    res = {"findings": [], "vectors": 1, "opened": 0, "refused": 0, "fresh": 0}
    _W["n"] += 1
    path = os.path.join(_W["dir"], "v%d.nix" % (_W["n"] % 2))
    if os.path.exists(path):
        os.remove(path)
    old_id = None
    if cfg["exists"]:
        shutil.copyfile(_W["base"], path)
        with h5py.File(path, "a") as hf:
            if cfg["format"] == "other":
                hf.attrs["format"] = b"xin"
            elif cfg["format"] == "missing":
                del hf.attrs["format"]
            hf.attrs["version"] = np.array(cfg["ver"], dtype=np.int32)
            if cfg["id"] == "invalid":
                hf.attrs["id"] = "not-a-uuid"
            elif cfg["id"] == "missing":
                del hf.attrs["id"]
            old_id = hf.attrs.get("id")
            if isinstance(old_id, bytes):
                old_id = old_id.decode()
    vclass = "missing_file" if not cfg["exists"] else "format_%s/ver_%s/id_%s" % (
        cfg["format"], "lib" if tuple(cfg["ver"]) == lib else
        ("older_minor" if cfg["ver"][0] == lib[0] and cfg["ver"][1] < lib[1] else
         "same_minor" if cfg["ver"][0] == lib[0] and cfg["ver"][1] == lib[1] else
         "newer_minor" if cfg["ver"][0] == lib[0] else "other_major"), cfg["id"])
    key = "open/%s/%s/expected_%s" % (mode, vclass, r["outcome"])
    fm = {"ro": nixio.FileMode.ReadOnly, "rw": nixio.FileMode.ReadWrite, "ow": nixio.FileMode.Overwrite}[mode]

    def finding(what, detail):
        res["findings"].append({"key": key + "/" + what, "detail": dict(detail, config=cfg, mode=mode), "replay": vec})

    nf = None
    try:
        nf = nixio.File.open(path, fm)
        got = "ok"
    except nixio.exceptions.InvalidFile:
        got = "invalid"
    except RuntimeError as exc:
        got = "runtime:" + str(exc)[:60]
    except Exception as exc:  # noqa
        got = "other:" + type(exc).__name__
    want = r["outcome"]
    if want in ("missing", "version", "noid"):
        res["refused"] += 1
        if not got.startswith("runtime"):
            finding("not_refused" if got == "ok" else "wrong_error", {"observed": got})
    elif want == "invalid":
        res["refused"] += 1
        if got != "invalid":
            finding("not_refused" if got == "ok" else "wrong_error", {"observed": got})
    elif got != "ok":
        finding("refused", {"observed": got})
    else:
        try:
            names = [b.name for b in nf.blocks]
            secs = [s.name for s in nf.sections]
            fid, fver, ffmt = nf.id, tuple(int(x) for x in nf.version), nf.format
            if want == "fresh":
                res["fresh"] += 1
                try:
                    okid = str(uuid.UUID(fid)) == fid
                except Exception:  # noqa
                    okid = False
                if names or secs:
                    finding("not_empty", {"blocks": names, "sections": secs})
                elif fver != lib or ffmt != "nix" or not okid or (old_id is not None and fid == old_id):
                    finding("header_not_fresh", {"version": fver, "format": ffmt, "id": fid, "old_id": old_id})
            else:
                res["opened"] += 1
                if names != ["keep"] or secs != ["meta"]:
                    finding("content_lost", {"blocks": names, "sections": secs})
                elif fver != tuple(cfg["ver"]) or fid != old_id:
                    finding("header_changed", {"version": fver, "id": fid})
        except Exception as exc:  # noqa
            finding("reads_raise", {"raised": repr(exc)[:200]})
    if nf is not None:
        try:
            nf.close()
        except Exception:  # noqa
            pass
    nf = None
    gc.collect()
    # an existing file survives every non-truncating open, accepted or refused
    if r["keeps"]:
        try:
            with h5py.File(path, "r") as hf:
                ok = "data" in hf and "keep" in hf["data"] and "a" in hf["data/keep/data_arrays"]
                ver = tuple(int(x) for x in hf.attrs["version"])
            if not ok or ver != tuple(cfg["ver"]):
                finding("existing_file_damaged", {"content_present": ok, "version": ver})
        except Exception as exc:  # noqa
            finding("existing_file_unreadable", {"raised": repr(exc)[:200]})
    return res


def label(vec):
    return "%s/%s" % (vec["q"]["mode"], vec["r"]["outcome"])


def session_runs(tier, seed, want, tmp, cfgs):
    """ExportRuns over NixModel configurations whose transitions are executed under NixSession schedules."""
    runs = []
    tlc_results = []
    for cfg, nvals, stride, pools in cfgs:
        sched = {}
        for n in nvals:
            ms, res = sessions.schedules_for(n, tmp)
            tlc_results.append(res)
            if want == "ro":
                ms = [s for s in ms if any(a["name"] == "Open" and a["m"] == "ro" for a in s)]
            elif want == "kill":
                ms = [s for s in ms if any(a["name"] == "Kill" and a["clean"] for a in s)]
            sched[n] = ms
        sfile = os.path.join(tmp, "schedules_%s_%s.json" % (want, cfg))
        with open(sfile, "w") as fh:
            json.dump(sched, fh)
        runs.append(runner.ExportRun("MC_NixModel", cfg, seed, "harness.sessions",
                                     opts={"schedules_file": sfile, "name_pools": pools, "want": want},
                                     stride=stride, batch=20))
        runs[-1].nschedules = sum(len(v) for v in sched.values())
    return runs, tlc_results


# (NixModel configuration, history lengths, stride, name pools)
SESSION_CFGS_QUICK = [("MC_Sess_quick.cfg", range(0, 4), 6, [0, 2, 4]), ("MC_Sess_links_quick.cfg", range(14, 16), 1, [0, 1])]
SESSION_CFGS_THOROUGH = [("MC_C02_quick.cfg", range(0, 5), 6, [0, 2, 4]), ("MC_C02_links.cfg", range(14, 17), 2, [0, 1])]


def run(tier, seed, verdict):
    quick = tier != "thorough"
    with core.Scratch("c11") as tmp:
        open_run = runner.ExportRun("MC_NixOpen", "MC_C11_open.cfg", seed, "harness.c11", label=label, batch=60)
        sruns, sres = session_runs(tier, seed, "ro", tmp,
                                   SESSION_CFGS_QUICK if quick else SESSION_CFGS_THOROUGH)
        from . import c05
        mods = [("array", "MC_NixArray", "MC_C01_quick.cfg", 8 if quick else 2, {}),
                ("meta", "MC_NixMeta", "MC_C10_quick.cfg", 20 if quick else 4, {}),
                ("frame", "MC_NixFrame", "MC_C16_quick.cfg", 30 if quick else 6, {}),
                ("dimlink", "MC_NixDimLink", "MC_C05_dims_quick.cfg", 12 if quick else 3, {"ranks": c05.RANKS})]
        mruns = [runner.ExportRun(tla, cfg, seed, "harness.romut", opts=dict(extra, module=m), stride=st,
                                  label=lambda tx, m=m: "ro_%s/%s:%s" % (m, tx["act"]["name"], tx["act"].get("out", "ok")))
                 for m, tla, cfg, st, extra in mods]
        level, cov, assumptions = runner.assemble(
            "C11", verdict, [open_run] + sruns + mruns,
            owns=lambda f: f.get("owner", "C11") == "C11",
            rule="(1) every header on a grid of 36 version triples around the library's x format tag nix / other / "
                 "missing x id valid / invalid / missing, and a missing file, x three open modes: File.open outcome "
                 "class, emptiness and fresh header after truncation / creation, content and header untouched after "
                 "every non-truncating open (accepted or refused); (2) read-only sessions at the points TLC's session "
                 "model places them in write histories of the entity-graph model: the transition's own mutator is "
                 "attempted read-only and must raise iff it changes the state in a writable session, the session's "
                 "projection must equal the writable one's, sha256 of the file must not change; (3) the mutators of the "
                 "array, metadata, data-frame and dimension-link models (writes, appends, resizes, value assignments, column / "
                 "row / cell writes, descriptor and link changes) attempted in a read-only session after their history: must "
                 "raise iff the specification says the call changes the state; bytes unchanged",
            assumptions=["files without a version attribute are left open (TypeError today)",
                         "which error class a refused open raises is compared by family (InvalidFile for a foreign "
                         "format tag, RuntimeError otherwise)",
                         "mutators that are no-ops in a writable session may or may not raise read-only"],
            tlc_props=["WritableImpliesReadable", "OverwriteEmpties", "OthersKeep", "CreateOnlyIfMissing", "MinorMonotone",
                       "ForeignRefused", "ReadOnlyNeverChanges", "ReadOnlySeesDisk", "OpenShowsDisk"],
            need=("ro/opened", "ro/version", "rw/version", "rw/opened", "ow/fresh", "ro/missing", "rw/fresh", "ro/invalid",
                  "ro/noid", "attempts", "ro_sessions", "must_fail"),
            extra={"session_schedules": sum(r.nschedules for r in sruns),
                   "session_model_states": sum(r.distinct for r in sres)})
    return level, cov, assumptions


def replay(path):
    with open(path) as fh:
        rec = json.load(fh)
    rp = rec["replay"]
    if isinstance(rp, dict) and rp.get("engine", "").startswith("NixSession"):
        return sessions.replay_record(rec, "C11")
    with core.Scratch("c11r") as tmp:
        init({"seed": 0, "rundir": tmp})
        res = replay_one(rp)
    hit = False
    for f in res["findings"]:
        print("MISMATCH key=%s\n  %s" % (f["key"], json.dumps(f["detail"], default=repr)[:600]))
        hit = hit or f["key"] == rec["key"]
    print("recorded key %s: %s" % (rec["key"], "REPRODUCED" if hit else "not reproduced"))
    if hit:
        print("VIOLATION property=C11 replay=%s" % path)
    return 1 if hit else 0
