# -*- coding: utf-8 -*-
"""
C16 - a data frame is a faithful table of named, typed columns.

NixFrame.tla models the frame as columns x rows of write stamps; TLC checks ShapeMatches, RefusedUnchanged,
CellFrame, AppendKeeps, TypesFixed over every history of create (four variants) / append rows / append column /
overwrite rows, columns, cells (addressed by index and by name, first and last included) / set units / refused
writes, and exports every transition.  Each is replayed from an empty file; after the call every read path
(whole table, read_rows, read_columns by index and by name, read_cell by position and by name, column_names, dtype,
columns, units, shape, df_shape, row_count, len) is compared through two long-lived handles and a fresh one, and again
after reopening read-only and read-write.
"""
import json
import os
import random
import zlib
from collections import OrderedDict

import numpy as np

from . import core
from . import runner

_W = {}

NAME_POOLS = [
    {"n1": "alpha", "n2": "beta", "n3": "gamma", "n4": "delta", "n5": "eps", "n6": "zeta", "n9": "added", "n8": "added2",
     "n7": "added3", "n6x": "added4", "n5x": "added5"},
    {"n1": "z", "n2": "y", "n3": "x", "n4": "w", "n5": "v", "n6": "u", "n9": "a", "n8": "b", "n7": "c", "n6x": "d", "n5x": "e"},
    {"n1": "Größe", "n2": "名前", "n3": "col 3", "n4": "d.e", "n5": "E", "n6": "e", "n9": "new col", "n8": "ünï", "n7": "7",
     "n6x": "0", "n5x": "-"},
]
POOLS = {
    "text": ["", "a", "ünï çødé", "名前", "x" * 40, " lead", "0", "NaN"],
    "int64": [2 ** 63 - 1, -2 ** 63, 0, 1, -1, 42, 2 ** 53 + 1],
    "float64": [0.0, -0.0, 1.5, float("nan"), float("inf"), float("-inf"), 1e-300, 123456.75],
    "bool": [True, False, True, False, False],
    "int8": [127, -128, 0, 1, -1, 42],
}
NPTYPE = {"text": str, "int64": np.int64, "float64": np.float64, "bool": np.bool_, "int8": np.int8}
UNITS = {0: None, 1: "mV", 2: "s"}


class Conc:
    def __init__(self, seed):
        self.seed = seed
        self.names = NAME_POOLS[seed % len(NAME_POOLS)]

    def name(self, tok):
        return self.names[tok]

    def value(self, stamp, typ):
        pool = POOLS[typ]
        h = zlib.crc32(("%d:%d:%d" % (stamp[0], stamp[1], self.seed)).encode())
        return pool[h % len(pool)]

    def describe(self):
        return {"seed": self.seed, "names": self.names}


def canon(v, typ=None):
    if isinstance(v, bytes):
        v = v.decode()
    if isinstance(v, (bool, np.bool_)):
        return ["bool", bool(v)]
    if isinstance(v, (int, np.integer)):
        return ["int", int(v)]
    if isinstance(v, (float, np.floating)):
        return ["float", repr(float(v))]
    if isinstance(v, str):
        return ["text", str(v)]
    return ["other:" + type(v).__name__, repr(v)]


def type_class(dt):
    import h5py
    dt = np.dtype(dt)
    if h5py.check_string_dtype(dt) is not None or dt.kind in "OUS":
        return "text"
    return {np.dtype(np.int64): "int64", np.dtype(np.float64): "float64", np.dtype(np.bool_): "bool",
            np.dtype(np.int8): "int8"}.get(dt, "other:%s" % dt)


def _safe(fn):
    try:
        return fn()
    except Exception as exc:  # noqa
        return "ERR:%s" % type(exc).__name__


def expected(state, conc):
    if not state["made"]:
        return {"made": False}
    cols = state["cols"]
    rows = [[canon(conc.value(st, cols[c]["t"])) for c, st in enumerate(row)] for row in state["cells"]]
    units = None
    if state["units"]:
        units = [UNITS[u] for u in state["units"]]
    return {"made": True, "names": [conc.name(c["n"]) for c in cols], "types": [c["t"] for c in cols],
            "units": units, "nrows": len(rows), "ncols": len(cols), "rows": rows}


def project(blk, handle=None, deep=True):
    try:
        if len(blk.data_frames) == 0:
            return {"made": False}
        df = handle if handle is not None else blk.data_frames["frame"]
    except Exception as exc:  # noqa
        return {"made": "ERR:%s" % type(exc).__name__}
    out = {"made": True}
    out["names"] = _safe(lambda: list(df.column_names))
    out["types"] = _safe(lambda: [type_class(t) for t in df.dtype])
    out["units"] = _safe(lambda: None if df.units is None else [None if u in (None, "") else str(u) for u in df.units])
    shape_reports = _safe(lambda: {"df_shape": tuple(int(x) for x in df.df_shape), "shape": tuple(int(x) for x in df.shape),
                                   "row_count": int(df.row_count()), "len": int(len(df)),
                                   "columns": [(n, type_class(t)) for n, t, _ in df.columns]})
    out["nrows"] = _safe(lambda: int(df.df_shape[0]))
    out["ncols"] = _safe(lambda: int(df.df_shape[1]))
    table = _safe(lambda: df[:])
    if isinstance(table, str):
        out["rows"] = table
        return out
    names = out["names"] if isinstance(out["names"], list) else []
    out["rows"] = _safe(lambda: [[canon(row[n]) for n in names] for row in table])
    # every shape report must describe the same table
    if isinstance(shape_reports, dict) and isinstance(out["rows"], list):
        nr, nc = len(out["rows"]), len(names)
        bad = []
        if shape_reports["df_shape"] != (nr, nc):
            bad.append("df_shape=%r" % (shape_reports["df_shape"],))
        if shape_reports["shape"] != (nr,):
            bad.append("shape=%r" % (shape_reports["shape"],))
        if shape_reports["row_count"] != nr or shape_reports["len"] != nr:
            bad.append("row_count=%r len=%r" % (shape_reports["row_count"], shape_reports["len"]))
        if [c[0] for c in shape_reports["columns"]] != names:
            bad.append("columns=%r" % (shape_reports["columns"],))
        out["shape_reports"] = bad or "consistent"
    else:
        out["shape_reports"] = shape_reports if isinstance(shape_reports, str) else "consistent"
    if deep and isinstance(out["rows"], list) and names:
        paths = []
        nr = len(out["rows"])
        try:
            for r in range(nr):
                got = df.read_rows([r])
                row = got[0] if np.ndim(got) else got
                if [canon(row[n]) for n in names] != out["rows"][r]:
                    paths.append("read_rows[%d]" % r)
            if nr >= 2:
                got = df.read_rows([0, nr - 1])
                if [[canon(x[n]) for n in names] for x in got] != [out["rows"][0], out["rows"][nr - 1]]:
                    paths.append("read_rows[first,last]")
            if nr >= 3:
                # index lists of every length: contiguous, evenly spaced and irregular ones
                sels = [list(range(nr)), list(range(0, nr, 2)), [0] + list(range(2, nr))]
                if nr >= 7:
                    sels += [[0, 2, 3, 6], [1, 3, 4, nr - 1], [0, 1, 3, 4, 6]]
                for sel in sels:
                    got = df.read_rows(sel)
                    if [[canon(x[n]) for n in names] for x in got] != [out["rows"][r] for r in sel]:
                        paths.append("read_rows%s" % sel)
            for c, n in enumerate(names):
                want = [out["rows"][r][c] for r in range(nr)]
                if [canon(x) for x in df.read_columns(index=[c])] != want:
                    paths.append("read_columns(index=%d)" % c)
                if [canon(x) for x in df.read_columns(name=[n])] != want:
                    paths.append("read_columns(name)")
                for r in range(nr):
                    if canon(df.read_cell(position=(r, c))) != want[r]:
                        paths.append("read_cell(position=(%d,%d))" % (r, c))
                    if canon(df.read_cell(col_name=[n], row_idx=r)) != want[r]:
                        paths.append("read_cell(col_name,row_idx)")
        except Exception as exc:  # noqa
            paths.append("ERR:%s:%s" % (type(exc).__name__, str(exc)[:80]))
        out["read_paths"] = paths[:3] or "agree"
    return out


def diff(exp, got):
    if not exp.get("made"):
        return None if got.get("made") is False else ("/made", False, got.get("made"))
    for k in ("made", "names", "types", "units", "nrows", "ncols", "rows"):
        if exp.get(k) != got.get(k):
            if k == "rows" and isinstance(got.get(k), list) and len(got[k]) == len(exp[k]):
                for r, (a, b) in enumerate(zip(exp[k], got[k])):
                    if a != b:
                        return ("/rows[%d]" % r, a, b)
            return ("/" + k, exp.get(k), got.get(k))
    if got.get("shape_reports", "consistent") != "consistent":
        return ("/shape_reports", "consistent", got["shape_reports"])
    if got.get("read_paths", "agree") != "agree":
        return ("/read_paths", "agree", got["read_paths"])
    return None


class Session:
    def __init__(self, nixio, path, conc, seed):
        self.nixio, self.path, self.conc = nixio, path, conc
        self.rnd = random.Random(seed)
        self.nf = nixio.File.open(path, nixio.FileMode.Overwrite)
        self.blk = self.nf.create_block("blk", "t")
        self.A = self.B = None
        self.state = None      # last spec state (needed to build arguments)

    def h(self):
        return self.A if self.rnd.random() < 0.5 else self.B

    def _vals(self, stamps, types):
        return tuple(self.conc.value(st, t) for st, t in zip(stamps, types))

    def apply(self, act, to_state):
        nixio = self.nixio
        conc = self.conc
        n = act["name"]
        try:
            if n == "Create":
                sch = act["schema"]
                names = [conc.name(c["n"]) for c in sch]
                types = [c["t"] for c in sch]
                nptypes = [NPTYPE[t] for t in types]
                rows = [self._vals(row, types) for row in to_state["cells"]]
                via = act["via"]
                if via == "col_dict":
                    df = self.blk.create_data_frame("frame", "t", col_dict=OrderedDict(zip(names, nptypes)),
                                                    data=rows or None)
                elif via == "names_dtypes":
                    df = self.blk.create_data_frame("frame", "t", col_names=names, col_dtypes=nptypes, data=rows or None)
                elif via == "names_data":
                    df = self.blk.create_data_frame("frame", "t", col_names=names, data=[list(r) for r in rows])
                else:
                    width = max([len(str(v)) for r in rows for v in r] + [1])
                    dt = np.dtype([(nm, ("U%d" % width if t == "text" else NPTYPE[t])) for nm, t in zip(names, types)])
                    arr = np.array(rows, dtype=dt)
                    df = self.blk.create_data_frame("frame", "t", data=arr)
                self.A = df
                self.B = self.blk.data_frames["frame"]
                _ = self.A.column_names, self.B.column_names, len(self.A), len(self.B)
            elif n == "CreateBad":
                k = act["kind"]
                if k == "dup_colname":
                    self.blk.create_data_frame("frame", "t", col_names=["a", "a"], col_dtypes=[int, float])
                elif k == "bad_cell":
                    self.blk.create_data_frame("frame", "t", col_dict=OrderedDict([("a", np.int64), ("b", str)]),
                                               data=[(1, "x"), ("not a number", "y")])
                elif k == "no_names":
                    self.blk.create_data_frame("frame", "t", data=[(1, 2.0)])
                else:
                    self.blk.create_data_frame("frame", "t", col_names=["a", "b"])
            elif n == "AppendRows":
                types = [c["t"] for c in to_state["cols"]]
                new = to_state["cells"][len(to_state["cells"]) - act["k"]:]
                self.h().append_rows([self._vals(r, types) for r in new])
            elif n == "AppendColumn":
                col = act["col"]
                column = [conc.value(row[-1], col["t"]) for row in to_state["cells"]]
                if act["explicit"]:
                    self.h().append_column(column, conc.name(col["n"]), datatype=NPTYPE[col["t"]])
                else:
                    self.h().append_column(column, conc.name(col["n"]))
            elif n == "WriteRows":
                types = [c["t"] for c in to_state["cols"]]
                idx = act["idx"]
                rows = [self._vals(to_state["cells"][i], types) for i in idx]
                # always the nested form (the flat single-row form is ambiguous when the first cell is text: left open)
                self.h().write_rows(rows, idx)
            elif n == "WriteColumn":
                c = act["c"]
                t = to_state["cols"][c]["t"]
                column = [conc.value(row[c], t) for row in to_state["cells"]]
                if act["by"] == "index":
                    self.h().write_column(column, index=c)
                else:
                    self.h().write_column(column, name=conc.name(act["n"]))
            elif n == "WriteCell":
                r, c = act["r"], act["c"]
                t = to_state["cols"][c]["t"]
                v = conc.value(to_state["cells"][r][c], t)
                if act["by"] == "position":
                    self.h().write_cell(v, position=(r, c))
                else:
                    self.h().write_cell(v, col_name=conc.name(act["n"]), row_idx=r)
            elif n == "SetUnits":
                self.h().units = [UNITS[u] for u in act["u"]]
            elif n == "Bad":
                self._bad(act["kind"])
            else:
                raise core.MachineryError("unknown frame action %s" % n)
        except core.MachineryError:
            raise
        except Exception as exc:  # noqa
            return exc
        return None

    def _bad(self, kind):
        df = self.h()
        st = self.state
        nr, nc = len(st["cells"]), len(st["cols"])
        types = [c["t"] for c in st["cols"]]
        rowvals = lambda: tuple(POOLS[t][1] for t in types)  # noqa
        if kind == "appendcol_short":
            df.append_column([1] * (nr - 1) if nr else [], "short", datatype=np.int64) if nr else df.append_column([1], "short", datatype=np.int64)
        elif kind == "appendcol_long":
            df.append_column([1] * (nr + 1), "long", datatype=np.int64)
        elif kind == "appendcol_dupname":
            df.append_column([1] * nr, self.conc.name(st["cols"][0]["n"]), datatype=np.int64)
        elif kind == "writerows_oob":
            df.write_rows([rowvals()], [nr])
        elif kind == "writerows_count":
            df.write_rows([rowvals(), rowvals()], [0])
        elif kind == "writecol_short":
            df.write_column([POOLS[types[0]][1]] * (nr + 1), index=nc - 1 if nc > 1 else None, name=None if nc > 1 else self.conc.name(st["cols"][0]["n"]))
        elif kind == "writecol_unknown_name":
            df.write_column([1] * nr, name="no such column")
        elif kind == "writecol_unknown_index":
            df.write_column([1] * nr, index=nc + 3)
        elif kind == "writecell_oob_row":
            df.write_cell(POOLS[types[0]][1], position=(nr, 0))
        elif kind == "writecell_unknown_col":
            df.write_cell(1, col_name="no such column", row_idx=0)
        elif kind == "appendrows_width":
            df.append_rows([rowvals() + (1,)])

    def close(self):
        try:
            self.nf.close()
        except Exception:  # noqa
            pass


def init(opts):
    _W["opts"] = opts
    _W["nixio"] = core.import_nixio()
    _W["dir"] = os.path.join(opts["rundir"], "f%d" % os.getpid())
    os.makedirs(_W["dir"], exist_ok=True)
    _W["n"] = 0


def klass(act):
    n = act["name"]
    if n in ("Bad", "CreateBad"):
        return "%s/%s" % (n, act["kind"])
    if n == "Create":
        return "Create/%s/rows%s" % (act["via"], "0" if act["rows"] == 0 else "N")
    if n == "WriteRows":
        return "WriteRows/%s" % ("unsorted" if act.get("may_refuse") else "sorted")
    if n in ("WriteColumn", "WriteCell"):
        extra = ""
        if n == "WriteColumn":
            extra = "/first" if act["c"] == 0 else ""
        return "%s/%s%s" % (n, act["by"], extra)
    if n == "AppendColumn":
        return "AppendColumn/%s/%s" % ("explicit" if act["explicit"] else "inferred", act["col"]["t"])
    return n


def replay_one(tx):
    nixio, opts = _W["nixio"], _W["opts"]
    _W["n"] += 1
    h = zlib.crc32(json.dumps(tx["act"], sort_keys=True).encode()) + 13 * len(tx["hist"])
    seed = (opts["seed"] * 1000003 + h) % (2 ** 31)
    conc = Conc(seed)
    path = os.path.join(_W["dir"], "d%d.nix" % (_W["n"] % 3))
    sess = Session(nixio, path, conc, seed)
    res = {"findings": [], "truncated": 0, "calls": 0}
    act = tx["act"]

    def finding(stage, what, detail):
        res["findings"].append({"key": "%s/%s/%s:%s" % (klass(act), act["out"], stage, what), "stage": stage, "out": act["out"],
                                "detail": detail,
                                "replay": {"hist": tx["hist"], "act": act, "from": tx["from"], "to": tx["to"],
                                           "states": tx.get("states"), "seed": opts["seed"], "conc": conc.describe()}})
    try:
        # the history is replayed with the intermediate states recomputed by a tiny interpreter of the same
        # stamps: TLC exports only from/to, so arguments of history calls are derived from the stamps they produce
        states = spec_states(tx["hist"])
        for a, st in zip(tx["hist"], states):
            exc = sess.apply(a, st)
            res["calls"] += 1
            sess.state = st if a["out"] == "ok" else sess.state
            if (exc is None) != (a["out"] == "ok"):
                # the call of the history that did not do what the specification says is reported here as well: the
                # transition it belongs to may have been skipped by the stride
                k = tx["hist"].index(a)
                res["findings"].append({
                    "key": "%s/%s/%s:%s" % (klass(a), a["out"], "outcome", "accepted" if exc is None else "raised_" + type(exc).__name__),
                    "stage": "outcome", "out": a["out"],
                    "detail": {"expected": a["out"], "observed": "ok" if exc is None else repr(exc)[:200], "in_history_at": k + 1},
                    "replay": {"hist": tx["hist"][:k], "act": a, "from": None, "to": None, "seed": opts["seed"], "conc": conc.describe()}})
                res["truncated"] = 1
                return res
        exp_from = expected(tx["from"], conc)
        if states and expected(states[-1], conc) != exp_from:
            raise core.MachineryError("stamp interpreter disagrees with TLC on the pre-state")
        if diff(exp_from, project(sess.blk, deep=False)):
            res["truncated"] = 1
            return res
        sess.state = tx["from"]
        exc = sess.apply(act, tx["to"])
        res["calls"] += 1
        if exc is not None and act.get("may_refuse"):
            # an index list that is not increasing may be refused - then nothing may have changed
            d = diff(exp_from, project(sess.blk))
            if d:
                finding("state", "refused_but_changed" + d[0].split("[")[0], {"path": d[0], "expected": d[1], "observed": d[2]})
            return res
        if (exc is None) != (act["out"] == "ok"):
            finding("outcome", "accepted" if exc is None else "raised_" + type(exc).__name__,
                    {"expected": act["out"], "observed": "ok" if exc is None else repr(exc)[:200]})
            return res
        exp_to = expected(tx["to"], conc)
        for label, hnd in (("A", sess.A), ("B", sess.B), ("fresh", None)):
            if label != "fresh" and hnd is None:
                continue
            d = diff(exp_to, project(sess.blk, hnd))
            if d:
                finding("state", d[0].split("[")[0], {"path": d[0], "expected": d[1], "observed": d[2], "handle": label})
                return res
        for mode, label in ((nixio.FileMode.ReadOnly, "ro"), (nixio.FileMode.ReadWrite, "rw")):
            sess.nf.close()
            sess.nf = nixio.File.open(path, mode)
            sess.blk = sess.nf.blocks["blk"]
            d = diff(exp_to, project(sess.blk))
            if d:
                finding("reopen-" + label, d[0].split("[")[0], {"path": d[0], "expected": d[1], "observed": d[2]})
                return res
        return res
    finally:
        sess.close()


def spec_states(hist):
    """Re-derives the specification state after each call of a history (same stamp rules as NixFrame.tla)."""
    made, cols, cells, units, nw = False, [], [], [], 0
    out = []
    for a in hist:
        n = a["name"]
        if a["out"] == "ok":
            if n == "Create":
                cols = list(a["schema"])
                nc = len(cols)
                cells = [[[1, r * nc + c] for c in range(nc)] for r in range(a["rows"])]
                made, units, nw = True, [], 1
            elif n == "AppendRows":
                nc = len(cols)
                cells = cells + [[[nw + 1, i * nc + c] for c in range(nc)] for i in range(a["k"])]
                nw += 1
            elif n == "AppendColumn":
                cols = cols + [a["col"]]
                cells = [row + [[nw + 1, r]] for r, row in enumerate(cells)]
                units = units + [0] if units else []
                nw += 1
            elif n == "WriteRows":
                nc = len(cols)
                cells = [list(r) for r in cells]
                for i, ri in enumerate(a["idx"]):
                    cells[ri] = [[nw + 1, i * nc + c] for c in range(nc)]
                nw += 1
            elif n == "WriteColumn":
                cells = [list(r) for r in cells]
                for r in range(len(cells)):
                    cells[r][a["c"]] = [nw + 1, r]
                nw += 1
            elif n == "WriteCell":
                cells = [list(r) for r in cells]
                cells[a["r"]][a["c"]] = [nw + 1, 0]
                nw += 1
            elif n == "SetUnits":
                units = list(a["u"])
        out.append({"made": made, "cols": cols, "cells": cells, "units": units})
    return out


def owner_of(f):
    if f["out"] != "ok" and f["stage"] != "outcome":
        return "C12"
    return "C16"


def make_runs(tier, seed):
    quick = tier != "thorough"
    return [runner.ExportRun("MC_NixFrame", "MC_C16_quick.cfg" if quick else "MC_C16.cfg", seed, "harness.c16",
                             stride=12 if quick else 6, label=lambda tx: klass(tx["act"]) + ":" + tx["act"]["out"]),
            # a tall frame (8 rows): row lists of 4-5 indexes - contiguous, evenly spaced, irregular - written and read
            runner.ExportRun("MC_NixFrame", "MC_C16_rows.cfg", seed + 1, "harness.c16", stride=1,
                             label=lambda tx: klass(tx["act"]) + ":" + tx["act"]["out"])]


def run(tier, seed, verdict):
    return runner.assemble(
        "C16", verdict, make_runs(tier, seed), owns=lambda f: owner_of(f) == "C16",
        rule="every history of create (col_dict / names+dtypes / names+data / structured array; 0 or more rows) / "
             "append rows / append column (explicit or inferred type) / overwrite rows (single, pairs incl. first and "
             "last; on an 8-row frame also lists of 4-5 contiguous, evenly spaced and irregular indexes) / columns and cells addressed by index and by name (column 0 and the last row included) / set units / "
             "refused writes, over schemas of 1-6 columns of text, int64, float64, bool, int8; values by write stamp from "
             "pools with int64 extremes, NaN, +-inf, -0.0, empty and non-ASCII text; after each call the table is read "
             "through every read path and two long-lived handles + a fresh one, then after reopening",
        assumptions=["a refused write that changes the table is reported by C12",
                     "write_to_csv / print_table are presentation and not driven"],
        tlc_props=["ShapeMatches", "RefusedUnchanged", "CellFrame", "AppendKeeps", "TypesFixed"],
        need=("Create/col_dict/rowsN:ok", "Create/names_data/rowsN:ok", "Create/structured/rowsN:ok",
              "Create/names_dtypes/rows0:ok", "AppendRows:ok", "WriteRows/sorted:ok", "WriteRows/unsorted:ok", "WriteColumn/index/first:ok",
              "WriteColumn/name:ok", "WriteCell/position:ok", "WriteCell/name:ok", "SetUnits:ok",
              "Bad/writerows_oob:refused", "Bad/appendcol_dupname:refused"))


def replay(path, prop="C16"):
    with open(path) as fh:
        rec = json.load(fh)
    rp = rec["replay"]
    with core.Scratch("c16r") as tmp:
        init({"seed": rp["seed"], "rundir": tmp})
        res = replay_one({"hist": rp["hist"], "act": rp["act"], "from": rp["from"], "to": rp["to"]})
    hit = False
    for f in res["findings"]:
        print("MISMATCH key=%s\n  %s" % (f["key"], json.dumps(f["detail"], default=repr, ensure_ascii=False)[:900]))
        hit = hit or f["key"] == rec["key"]
    print("recorded key %s: %s" % (rec["key"], "REPRODUCED" if hit else "not reproduced"))
    if hit:
        print("VIOLATION property=%s replay=%s" % (prop, path))
    return 1 if hit else 0
