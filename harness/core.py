# -*- coding: utf-8 -*-
"""
Harness core: TLC runner, export-line parser, evidence writer, known-findings
matcher, verdict protocol.  Used by every check module (harness/c_*.py).

Verdict protocol (DESIGN.md section 3):
  exit 0  property held on everything explored (KNOWN-FINDING lines allowed)
  exit 1  + "VIOLATION property=<id> replay=<path>" for each unlisted violation
  exit 2  machinery failure (TLC crashed, vacuity, parse error) - never a verdict
"""
import json
import os
import re
import shutil
import subprocess
import sys
import tempfile
import time

VERIF = os.path.dirname(os.path.dirname(os.path.abspath(__file__)))
SPEC = os.path.join(VERIF, "spec")
EVID = os.path.join(VERIF, "evidence")
REPLAYS = os.path.join(VERIF, "replays")
REPO = os.environ.get("VERIF_REPO", "/repo")
JAR = "/opt/veriftools/tla/tla2tools.jar:/opt/veriftools/tla/CommunityModules-deps.jar"
NCPU = min(16, os.cpu_count() or 1)


class MachineryError(Exception):
    """Something in the checking machinery failed; exit status 2."""


# ---------------------------------------------------------------------------
# scratch

def scratch_root():
    for cand in (os.environ.get("VERIF_SCRATCH"), "/dev/shm", "/var/tmp"):
        if cand and os.path.isdir(cand) and os.access(cand, os.W_OK):
            return cand
    return tempfile.gettempdir()


class Scratch:
    def __init__(self, tag):
        self.path = tempfile.mkdtemp(prefix="nixverif-%s-" % tag, dir=scratch_root())

    def __enter__(self):
        return self.path

    def __exit__(self, *a):
        shutil.rmtree(self.path, ignore_errors=True)


# ---------------------------------------------------------------------------
# TLA+ value / string helpers

def tla_unescape(s):
    """Undo TLC's escaping of a printed string literal (without the quotes)."""
    out = []
    i = 0
    n = len(s)
    while i < n:
        c = s[i]
        if c == "\\" and i + 1 < n:
            d = s[i + 1]
            if d == "n":
                out.append("\n")
            elif d == "t":
                out.append("\t")
            elif d == "r":
                out.append("\r")
            elif d == "f":
                out.append("\f")
            else:
                out.append(d)
            i += 2
        else:
            out.append(c)
            i += 1
    return "".join(out)


def tla_str(s):
    return '"' + s.replace("\\", "\\\\").replace('"', '\\"') + '"'


def tla_value(v):
    """Render a Python value as a TLA+ expression (for generated cfg/modules)."""
    if isinstance(v, bool):
        return "TRUE" if v else "FALSE"
    if isinstance(v, int):
        return str(v)
    if isinstance(v, str):
        return tla_str(v)
    if isinstance(v, (list, tuple)):
        return "<<" + ", ".join(tla_value(x) for x in v) + ">>"
    if isinstance(v, (set, frozenset)):
        return "{" + ", ".join(tla_value(x) for x in sorted(v, key=repr)) + "}"
    if isinstance(v, dict):
        if not v:
            return "<<>>"
        return "[" + ", ".join("%s |-> %s" % (k, tla_value(x)) for k, x in v.items()) + "]"
    raise TypeError(v)


# ---------------------------------------------------------------------------
# TLC

_RE_STATES = re.compile(r"^(\d+) states generated, (\d+) distinct states found, (\d+) states left on queue")
_RE_DEPTH = re.compile(r"^The depth of the complete state graph search is (\d+)")
_RE_INIT = re.compile(r"^Finished computing initial states: (\d+) distinct state")
_RE_COV = re.compile(r"^<(\w+) line (\d+), col (\d+) to line (\d+), col (\d+) of module (\w+)>: (\d+):(\d+)")
_RE_COVINIT = re.compile(r"^<(\w+) line (\d+), col (\d+) to line (\d+), col (\d+) of module (\w+)>: (\d+)$")


class TLCResult:
    def __init__(self):
        self.generated = 0
        self.distinct = 0
        self.queue = 0
        self.depth = 0
        self.init_states = 0
        self.coverage = {}      # action name -> [distinct, generated]
        self.violation = None   # text of the first error
        self.error_trace = []   # raw lines of TLC's counterexample
        self.exports = 0
        self.wall = 0.0
        self.cmd = ""
        self.log_tail = []
        self.rc = None
        self.postcondition_failed = False


def run_tlc(module, cfg, workdir, workers=NCPU, export_cb=None, timeout=1800,
            simulate=None, depth=None, seed=None, extra=(), env_extra=None,
            coverage=True, heap=None, spec_dir=SPEC, dfid=None):
    """
    Run TLC on spec_dir/<module>.tla with configuration <cfg> (path or name in
    spec_dir).  Lines printed by PrintT that start with `"` (a JSON string) or
    `<<"` are export lines and are passed, decoded, to export_cb(obj_or_tuple).
    """
    res = TLCResult()
    cfgpath = cfg if os.path.isabs(cfg) else os.path.join(spec_dir, cfg)
    meta = os.path.join(workdir, "tlcmeta-%d" % int(time.time() * 1e6))
    os.makedirs(meta, exist_ok=True)
    cmd = ["java", "-XX:+UseParallelGC"]
    if heap:
        cmd.append("-Xmx%s" % heap)
    cmd += ["-cp", JAR, "tlc2.TLC", "-metadir", meta, "-noGenerateSpecTE",
            "-config", cfgpath, "-workers", str(workers)]
    if coverage and not simulate:
        cmd += ["-coverage", "1"]
    if simulate:
        cmd += ["-simulate", simulate]
    if depth:
        cmd += ["-depth", str(depth)]
    if dfid:
        cmd += ["-dfid", str(dfid)]
    if seed is not None:
        cmd += ["-seed", str(seed)]
    cmd += list(extra)
    cmd.append(os.path.join(spec_dir, module + ".tla"))
    res.cmd = " ".join(cmd)
    env = dict(os.environ)
    if env_extra:
        env.update(env_extra)
    t0 = time.time()
    proc = subprocess.Popen(cmd, stdout=subprocess.PIPE, stderr=subprocess.STDOUT,
                            cwd=spec_dir, env=env, text=True, bufsize=1 << 20)
    tail = []
    in_error = False
    killed = False
    try:
        for line in proc.stdout:
            if time.time() - t0 > timeout:
                proc.kill()
                killed = True
                break
            if line.startswith('<<"TX"'):
                res.exports += 1
                if export_cb is not None:
                    export_cb(parse_export(line.rstrip("\n")))
                continue
            line = line.rstrip("\n")
            tail.append(line)
            if len(tail) > 400:
                del tail[:100]
            m = _RE_STATES.match(line)
            if m:
                res.generated, res.distinct, res.queue = map(int, m.groups())
                continue
            m = _RE_DEPTH.match(line)
            if m:
                res.depth = int(m.group(1))
                continue
            m = _RE_INIT.match(line)
            if m:
                res.init_states = int(m.group(1))
                continue
            m = _RE_COV.match(line)
            if m:
                res.coverage[m.group(1)] = [int(m.group(7)), int(m.group(8))]
                continue
            m = _RE_COVINIT.match(line)
            if m:
                res.coverage.setdefault(m.group(1), [int(m.group(7)), int(m.group(7))])
                continue
            if line.startswith("Error:"):
                if res.violation is None:
                    res.violation = line
                in_error = True
                if "Postcondition" in line or "POSTCONDITION" in line:
                    res.postcondition_failed = True
                continue
            if in_error:
                res.error_trace.append(line)
                if len(res.error_trace) > 2000:
                    in_error = False
    finally:
        proc.stdout.close()
        res.rc = proc.wait()
    res.wall = time.time() - t0
    res.log_tail = tail
    shutil.rmtree(meta, ignore_errors=True)
    if killed:
        raise MachineryError("TLC timed out after %ss: %s" % (timeout, res.cmd))
    blob = (res.violation or "") + "\n".join(res.error_trace[:20]) + "\n".join(tail[-40:])
    if "ran out of memory" in blob or "OutOfMemoryError" in blob or "GC overhead limit" in blob:
        # resource exhaustion of the checker is a failure of the machinery, never a verdict about the property
        raise MachineryError("TLC ran out of memory: %s" % res.cmd)
    return res


def parse_export(line):
    """
    `"…json…"`                      -> decoded JSON object
    `<<"TAG", 3, "…json…">>`        -> (TAG, 3, decoded JSON object)
    """
    if line.startswith('"'):
        return json.loads(tla_unescape(line[1:-1]))
    # tuple: split at top level commas outside strings
    body = line[2:-2]
    parts = []
    cur = []
    instr = False
    esc = False
    for ch in body:
        if instr:
            cur.append(ch)
            if esc:
                esc = False
            elif ch == "\\":
                esc = True
            elif ch == '"':
                instr = False
        else:
            if ch == '"':
                instr = True
                cur.append(ch)
            elif ch == ",":
                parts.append("".join(cur).strip())
                cur = []
            else:
                cur.append(ch)
    parts.append("".join(cur).strip())
    out = []
    for p in parts:
        if p.startswith('"'):
            s = tla_unescape(p[1:-1])
            if s[:1] in "{[":
                try:
                    s = json.loads(s)
                except ValueError:
                    pass
            out.append(s)
        elif re.match(r"^-?\d+$", p):
            out.append(int(p))
        elif p in ("TRUE", "FALSE"):
            out.append(p == "TRUE")
        else:
            out.append(p)
    return tuple(out)


def require_clean(res, what, families=None):
    """TLC finished, no error; optionally every action family fired (vacuity)."""
    if res.violation is not None:
        return False
    if res.rc not in (0,):
        raise MachineryError("%s: TLC exit status %s\n%s" % (what, res.rc, "\n".join(res.log_tail[-30:])))
    if families:
        missing = [f for f in families if res.coverage.get(f, [0, 0])[1] == 0]
        if missing:
            raise MachineryError("%s: vacuity - actions never taken: %s" % (what, missing))
    return True


# ---------------------------------------------------------------------------
# known findings

def load_findings():
    path = os.path.join(VERIF, "known_findings.json")
    if not os.path.exists(path):
        return []
    with open(path) as fh:
        return json.load(fh)["findings"]


class Verdict:
    """
    Collects violations of one property.  A violation has a `key` - a stable
    identifier of the failing input class / call site / history class computed
    by the check from the abstract scenario (never from an error message).
    Open entries of known_findings.json match by property and exact key.
    """

    def __init__(self, prop, tier, seed):
        self.prop = prop
        self.tier = tier
        self.seed = seed
        self.t0 = time.time()
        self.violations = {}     # key -> dict(detail, replay, count)
        self.note_classes = {}
        self.open = {f["key"]: f for f in load_findings()
                     if f["property"] == prop and f.get("status") == "open"}

    def violation(self, key, detail, replay=None):
        ent = self.violations.get(key)
        if ent is None:
            self.violations[key] = {"detail": detail, "replay": replay, "count": 1}
        else:
            ent["count"] += 1

    def note(self, text, cls=None):
        """Notes are informational; `cls` groups similar notes (first text + count)."""
        cls = cls or text
        ent = self.note_classes.get(cls)
        if ent is None:
            self.note_classes[cls] = [text, 1]
        else:
            ent[1] += 1

    @property
    def notes(self):
        return ["%s%s" % (t, "" if n == 1 else "  [x%d]" % n) for t, n in self.note_classes.values()]

    def finish(self, level, coverage, assumptions, evidence_extra=None):
        os.makedirs(EVID, exist_ok=True)
        os.makedirs(REPLAYS, exist_ok=True)
        new = []
        known = []
        for key, ent in sorted(self.violations.items()):
            if key in self.open:
                known.append((key, ent))
            else:
                new.append((key, ent))
        for key, ent in known:
            print("KNOWN-FINDING: property=%s %s (%s; %d occurrence(s))" % (
                self.prop, key, self.open[key].get("what", ""), ent["count"]))
        for key in self.open:
            if key not in self.violations:
                self.note("listed finding %s was not reproduced by this run (tier %s)" % (key, self.tier))
        rc = 0
        for key, ent in new:
            safe = re.sub(r"[^A-Za-z0-9_.-]+", "_", key)[:120]
            rpath = os.path.join(REPLAYS, "%s-%s%s.json" % (self.prop, safe, os.environ.get("VERIF_EVID_SUFFIX", "")))
            with open(rpath, "w") as fh:
                json.dump({"property": self.prop, "key": key, "tier": self.tier,
                           "seed": self.seed, "count": ent["count"],
                           "detail": ent["detail"], "replay": ent["replay"]},
                          fh, indent=1, default=repr)
            print("VIOLATION property=%s replay=%s" % (self.prop, rpath))
            print("  key=%s count=%d" % (key, ent["count"]))
            print("  " + json.dumps(ent["detail"], default=repr)[:600])
            rc = 1
        cov = dict(coverage)
        ev = {"property_id": self.prop, "tier": self.tier, "seed": self.seed,
              "level": level, "coverage": cov,
              "assumptions": list(assumptions),
              "wall_s": round(time.time() - self.t0, 2),
              "violations": len(new),
              "known_findings_reproduced": [k for k, _ in known],
              "notes": self.notes}
        if evidence_extra:
            ev.update(evidence_extra)
        # VERIF_EVID_SUFFIX: runs against seeded changes / scratch trees must not overwrite the evidence of the real tree
        with open(os.path.join(EVID, "%s.json%s" % (self.prop, os.environ.get("VERIF_EVID_SUFFIX", ""))), "w") as fh:
            json.dump(ev, fh, indent=1, default=repr)
        for n in self.notes:
            print("note: " + n)
        print("%s %s tier=%s seed=%d: %s in %.1fs" % (
            self.prop, "FAILED" if rc else "ok", self.tier, self.seed,
            "%d new violation class(es)" % len(new) if rc else "held on everything explored",
            time.time() - self.t0))
        return rc


def import_nixio():
    """Import nixio from the current working tree of the repository."""
    if REPO not in sys.path:
        sys.path.insert(0, REPO)
    os.environ.setdefault("NIXPY_VERIF", "1")
    import nixio  # noqa
    if not os.path.abspath(nixio.__file__).startswith(os.path.abspath(REPO)):
        raise MachineryError("nixio imported from %s, not from %s" % (nixio.__file__, REPO))
    return nixio



class Budget:
    """
    Wall-clock budget of one export run (thorough tier; VERIF_RUN_BUDGET seconds, 0 = none): when the replays have
    used it up, only every 8th further transition is replayed, and none at all after twice the budget - TLC itself
    always runs to the end, so the model-checking part stays complete.  What was thinned out is counted.
    """
    def __init__(self):
        self.limit = float(os.environ.get("VERIF_RUN_BUDGET", "0") or 0)
        self.t0 = time.time()
        self.n = 0
        self.skipped = 0

    def skip(self):
        if not self.limit:
            return False
        el = time.time() - self.t0
        if el <= self.limit:
            return False
        self.n += 1
        if el > 2 * self.limit or self.n % 8:
            self.skipped += 1
            return True
        return False
