# -*- coding: utf-8 -*-
"""
C09 - SI unit recognition and scaling.

TLC enumerates NixUnits (MC_C09.cfg): every terminal state is a vector
(input strings + expected outcome); the laws (composition, inversion,
reflexivity, ratio-to-the-power, scalable iff same unit and power, grammar
unambiguous) are checked by TLC on every vector.  Every exported vector is
executed against nixio.util.units.
"""
import math
import random

from . import core


def prefix_class(pa, pb):
    if pa == pb:
        return "same_prefix"
    if pa and pb:
        return "both_prefixed_distinct"
    if pa:
        return "origin_prefixed_only"
    return "destination_prefixed_only"


SANITIZE_POOL = [
    "mV", " mV ", "m V", "µV", "μV", "muV", "mu V", "k Ohm", "µ s", "μs^-1", "mV / Hz",
    "", " ", "  ", "u", "mu", "µ", "μ", "abc", "m^2", "kg*m/s^2", " kg * m / s ^ 2 ",
    "Ω", "°C", "in", "ft", "yrd", "pt", "Kv", "1", "m/s/s", "ÅÅ", "mol", "mmol", "µmol", "μ mol",
]
# strings on which the one-pass clean-up re-forms a replaceable "mu" (see known_findings)
def reforms_mu(s):
    once = s.replace(" ", "")
    # after removing blanks and replacing "mu", a new "mu" can only appear when an
    # "m" is directly followed by ("mu" | micro sign)
    return ("mmu" in once) or ("mµ" in once) or ("mμ" in once)


def run(tier, seed, verdict, only=None):
    nixio = core.import_nixio()
    from nixio.util import units
    from nixio.exceptions import InvalidUnit

    rnd = random.Random(seed)
    counts = {"scale": 0, "atom": 0, "xunit": 0, "xpow": 0, "xcomp": 0, "compound": 0, "sanitize": 0}
    samples = []
    nontrivial = set()

    def judge(vec):
        cfg, q, r = vec["cfg"], vec["q"], vec["r"]
        kind = q["kind"]
        counts[kind] += 1
        if len(samples) < 6 and counts[kind] in (1, 977):
            samples.append(vec)
        if kind == "scale":
            a, b = r["a"], r["b"]
            nontrivial.add((a, b))
            pc = prefix_class(q["pa"], q["pb"])
            kc = "nopower" if cfg["k"] == 0 else ("pospower" if cfg["k"] > 0 else "negpower")
            try:
                ok = bool(units.scalable(a, b)) and bool(units.scalable([a], [b]))
            except Exception as exc:  # noqa
                ok = False
                verdict.violation("scalable/raises/%s" % pc, {"a": a, "b": b, "exc": repr(exc)}, vec)
                return
            if not ok:
                verdict.violation("scalable/false_for_scalable/%s/u=%s" % (pc, cfg["u"]),
                                  {"a": a, "b": b, "expected": True}, vec)
                return
            try:
                got = units.scaling(a, b)
            except Exception as exc:  # noqa
                verdict.violation("scaling/raises/%s" % pc, {"a": a, "b": b, "exc": repr(exc)}, vec)
                return
            want = 10.0 ** r["exp10"]
            if r["exp10"] == 0:
                good = (got == 1.0)
            else:
                good = math.isclose(got, want, rel_tol=1e-12, abs_tol=0.0)
            if not good:
                verdict.violation("scaling/wrong_factor/%s/%s" % (pc, kc),
                                  {"origin": a, "destination": b, "expected": "1e%d" % r["exp10"],
                                   "observed": got}, vec)
        elif kind == "atom":
            s = r["s"]
            nontrivial.add(s)
            if not units.is_atomic(s):
                verdict.violation("is_atomic/rejects/u=%s" % cfg["u"], {"s": s}, vec)
            if not units.is_si(s):
                verdict.violation("is_si/rejects_atomic/u=%s" % cfg["u"], {"s": s}, vec)
            if units.is_compound(s):
                verdict.violation("is_compound/accepts_atomic/u=%s" % cfg["u"], {"s": s}, vec)
            got = tuple(units.split(s))
            want = (r["prefix"], r["unit"], r["power"])
            if got != want:
                verdict.violation("split/wrong/u=%s" % cfg["u"],
                                  {"s": s, "expected": want, "observed": got}, vec)
            if units.sanitizer(s) != s and "mu" not in s:
                verdict.violation("sanitizer/changes_clean_unit", {"s": s, "observed": units.sanitizer(s)}, vec)
        elif kind in ("xunit", "xpow", "xcomp"):
            a, b = r["a"], r["b"]
            nontrivial.add((a, b))
            if units.scalable(a, b) or units.scalable([a], [b]):
                verdict.violation("scalable/true_for_%s" % kind, {"a": a, "b": b}, vec)
            try:
                got = units.scaling(a, b)
                verdict.violation("scaling/not_refused_for_%s" % kind, {"a": a, "b": b, "observed": got}, vec)
            except (InvalidUnit, ValueError):
                pass
            except Exception as exc:  # noqa
                verdict.note("scaling(%r,%r) refused with unexpected class %s" % (a, b, type(exc).__name__), cls="scaling/refusal_class")
        elif kind == "compound":
            s = r["s"]
            nontrivial.add(s)
            if not units.is_compound(s):
                verdict.violation("is_compound/rejects/n=%d" % r["n"], {"s": s}, vec)
            if not units.is_si(s):
                verdict.violation("is_si/rejects_compound/n=%d" % r["n"], {"s": s}, vec)
            if units.is_atomic(s):
                verdict.violation("is_atomic/accepts_compound", {"s": s}, vec)
            try:
                parts = units.split_compound(s)
                if len(parts) != r["n"]:
                    verdict.note("split_compound(%r) has %d parts, %d atoms were composed (not judged: "
                                 "the property only demands recognition)" % (s, len(parts), r["n"]), cls="split_compound/count")
            except Exception as exc:  # noqa
                verdict.note("split_compound(%r) raised %s (not judged)" % (s, type(exc).__name__), cls="split_compound/raises")

    stride = 1 if tier == "thorough" else 1
    state = {"i": 0}

    def cb(tx):
        if not (isinstance(tx, tuple) and tx and tx[0] == "TX"):
            return
        state["i"] += 1
        judge(tx[1])

    if only is not None:
        judge(only)
        return None
    with core.Scratch("c09") as tmp:
        res = core.run_tlc("NixUnits", "MC_C09.cfg", tmp, workers=1, export_cb=cb,
                           timeout=1200, coverage=False)
    if res.violation is not None:
        verdict.violation("tlc/law_violated", {"tlc": res.violation, "trace": res.error_trace[:40]})
    elif res.rc != 0:
        raise core.MachineryError("TLC failed: rc=%s\n%s" % (res.rc, "\n".join(res.log_tail[-20:])))
    for k in ("scale", "atom", "xunit", "xpow", "xcomp", "compound"):
        if counts[k] == 0:
            raise core.MachineryError("vacuity: no %s vectors were exported" % k)

    # clean-up: idempotence, blanks and micro signs gone
    pool = list(SANITIZE_POOL)
    alphabet = [" ", "m", "u", "µ", "μ", "V", "s", "^", "-", "2", "/", "*", "k", "x", "é"]
    n_rand = 20000 if tier == "thorough" else 3000
    for _ in range(n_rand):
        pool.append("".join(rnd.choice(alphabet) for _ in range(rnd.randint(0, 7))))
    for s in pool:
        counts["sanitize"] += 1
        once = units.sanitizer(s)
        twice = units.sanitizer(once)
        nontrivial.add(("san", s))
        if " " in once or "µ" in once or "μ" in once:
            verdict.violation("sanitizer/leaves_blank_or_micro", {"s": s, "observed": once})
        if once != twice:
            key = "sanitizer/not_idempotent/" + ("m_before_mu_reforms_mu" if reforms_mu(s) else "other")
            verdict.violation(key, {"s": s, "once": once, "twice": twice})
    samples.append({"sanitize": pool[1], "expected_fixed_point": units.sanitizer(units.sanitizer(pool[1]))})

    coverage = {
        "states": res.distinct, "transitions": res.exports,
        "traces_validated_against_impl": sum(counts[k] for k in ("scale", "atom", "xunit", "xpow", "xcomp", "compound")),
        "samples": samples, "exhaustive": True,
        "evaluations": sum(counts.values()), "distinct_nontrivial": len(nontrivial),
        "rule": "TLC enumerates every (unit, power) x prefix pair (scale), every prefix-unit-power atom, "
                "cross-unit and cross-power pairs over CrossPrefixes, and all compounds of 2..4 pool atoms; "
                "each exported vector is one call set against nixio.util.units; distinct = distinct input strings/pairs",
        "per_kind": counts,
        "tlc": {"generated": res.generated, "distinct": res.distinct, "depth": res.depth,
                "laws": ["Composes", "Inverts", "Reflexive", "RatioToPower", "ScalableIffSame",
                         "ASSUME GrammarUnambiguous"], "wall_s": round(res.wall, 1)},
        "checker_cmd": res.cmd,
    }
    assumptions = [
        "powers -3..3; an explicit ^1 versus no power is left open (not generated as a cross pair)",
        "scaling factor compared with 10^k at relative tolerance 1e-12 (exactly 1.0 for equal units)",
        "split_compound is executed but only noted: the property demands recognition of compounds, not their decomposition",
        "non-unit strings are only used for clean-up idempotence (the statement demands nothing else of them)",
    ]
    return "model_checking", coverage, assumptions


def replay(path):
    from .c07 import _replay_vector
    return _replay_vector(path, "C09", run)
