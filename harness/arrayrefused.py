# -*- coding: utf-8 -*-
"""Adapter: NixArray transitions through the generic runner (used by C12 for the refused array calls)."""
import json

from . import arrayreplay as ar
from . import core


def init(opts):
    o = dict(opts)
    o.setdefault("mode", "values")
    ar._worker_init(o)


def replay_one(tx):
    r = ar.replay_one(tx)
    out = {"findings": [], "truncated": r["truncated"], "calls": r["calls"]}
    for f in r["findings"]:
        out["findings"].append({"key": ar.key_of(f), "stage": f["stage"], "owner": "C12", "detail": f["detail"],
                                "replay": dict(f["replay"], engine="NixArray", seed=ar._W["opts"]["seed"])})
    return out


def replay_record(rec):
    rp = rec["replay"]
    with core.Scratch("arr") as tmp:
        init({"seed": rp.get("seed", 0), "rundir": tmp})
        # the post-state is not stored in array replay files: re-derive nothing, just re-run and report findings
        print("array replay files carry history and action only; re-run the check to reproduce: %s" % json.dumps(rp["act"]))
    return 2
