# -*- coding: utf-8 -*-
"""
Binding A for NixModel: every transition TLC exports (hist, act, from, to) is
replayed against the real library in a worker process:

    fresh scratch file -> replay hist in one session (long-lived handles and
    fresh lookups mixed by the concretisation) -> project, must equal `from`
    (otherwise the behaviour is truncated: the divergence belongs to an earlier
    transition, which is replayed and reported on its own) -> execute act ->
    outcome class and projection must equal `to` -> probes (reopen read-only and
    read-write, lookup agreement, ...).

Findings are returned as dicts; the property check decides which of them it owns.
"""
import json
import multiprocessing as mp
import os
import re
import shutil
import tempfile
import threading
import time
import zlib

import numpy as np

from . import core
from . import nixmodel as nm

_W = {}


def _worker_init(opts):
    _W["opts"] = opts
    _W["nixio"] = core.import_nixio()
    _W["dir"] = tempfile.mkdtemp(prefix="w-", dir=opts.get("rundir") or core.scratch_root())
    _W["n"] = 0
    os.environ["TZ"] = "XXX-5:30"
    time.tzset()


def generic(path):
    return re.sub(r"\[\d+\]", "[]", path)


def conc_for(tx, opts):
    h = zlib.crc32(json.dumps(tx["act"], sort_keys=True).encode()) + 31 * len(tx["hist"])
    seed = (opts["seed"] * 1000003 + h) % (2 ** 31)
    pools = opts.get("name_pools")
    npool = pools[seed % len(pools)] if pools else None
    return nm.Conc(seed, name_pool=npool), seed


def finding(stage, tx, kind, detail, facet="content", conc=None):
    act = tx["act"]
    return {"stage": stage, "action": act["name"], "out": act.get("out", "ok"), "okind": kind,
            "facet": facet, "detail": detail,
            "replay": {"engine": "NixModel", "hist": tx["hist"], "act": act, "from": tx["from"], "to": tx["to"],
                       "obs": tx.get("obs", []), "opts": _W.get("opts"),
                       "conc": conc.describe() if conc else None}}


def kind_of(tx, act):
    """Kind of the object an action is about (from the spec state)."""
    if "kind" in act:
        return act["kind"]
    if act["name"] == "CreateMTag":
        return "mtag"
    if act["name"] == "CreateFeature":
        return "feature"
    if act["name"] == "CreateProperty":
        return "property"
    o = act.get("o")
    if o is None:
        return "-"
    if o == 0:
        return "file"
    for ob in tx["from"]["objs"]:
        if ob["id"] == o:
            return ob["kind"]
    return "?"


def replay_one(tx):
    opts = _W["opts"]
    nixio = _W["nixio"]
    _W["n"] += 1
    conc, cseed = conc_for(tx, opts)
    path = os.path.join(_W["dir"], "f%d.nix" % (_W["n"] % 4))
    res = {"findings": [], "truncated": 0, "calls": 0, "probes": 0, "refusals": []}
    sess = nm.Session(nixio, path, conc, how_seed=cseed)
    act = tx["act"]
    okind = kind_of(tx, act)
    try:
        # 1. history prefix
        for k_, a in enumerate(tx["hist"]):
            out = sess.apply(a)
            res["calls"] += 1
            if out.ok != (a["out"] == "ok"):
                # reported here as well: the transition this call belongs to may have been skipped by the stride
                txh = {"hist": tx["hist"][:k_], "act": a, "from": tx["from"], "to": tx["from"]}
                res["findings"].append(finding(
                    "outcome", txh, kind_of(tx, a),
                    {"expected": a["out"], "observed": "ok" if out.ok else "raised %s: %s" % (out.cls, str(out.exc)[:200]),
                     "in_history_at": k_ + 1}, conc=conc))
                res["truncated"] = 1
                return res
        # every long-lived handle looks at its containers once before the call (the simulated walks do this after
        # every call; here the history is the shortest one and is replayed thousands of times)
        sess.touch()
        exp_from = nm.expected(tx["from"], conc)
        got_from = nm.project(sess.nf, sess.reg)
        d = nm.diff(exp_from, got_from)
        if d:
            if not tx["hist"]:
                res["findings"].append(finding("init", tx, okind, {"diff": d[:3]}, conc=conc))
            res["truncated"] = 1
            return res
        # refused calls stutter (RefusedUnchanged): a seeded quarter of the replays makes one or two of them right before
        # the action, so that whatever a refusal leaves behind in the session shows in the action's outcome
        if opts.get("noise", True) and sess.rnd.random() < 0.25:
            res["noise"] = 1
            accepted = sess.noise(tx["from"])
            if accepted:
                res["findings"].append(finding("noise", tx, okind, {"what": "refused_call_accepted", "call": accepted}, conc=conc))
                return res
            d = nm.diff(exp_from, nm.project(sess.nf, sess.reg))
            if d:
                res["findings"].append(finding("noise", tx, okind, {"what": "refused_call_changed_state", "path": d[0][0],
                                                                    "expected": d[0][1], "observed": d[0][2]}, conc=conc))
                return res
        # 2. the action
        out = sess.apply(act)
        res["calls"] += 1
        want_ok = act["out"] == "ok"
        if not out.ok:
            res["refusals"].append((act["name"], okind, act["out"], out.cls))
        if out.ok != want_ok:
            res["findings"].append(finding(
                "outcome", tx, okind,
                {"expected": act["out"], "observed": "ok" if out.ok else "raised %s: %s" % (out.cls, str(out.exc)[:200])},
                conc=conc))
            return res   # nothing sensible to compare after an unexpected outcome
        same = tx["to"].get("same")
        exp_to = exp_from if same else nm.expected(tx["to"], conc)
        got_to = nm.project(sess.nf, sess.reg)
        d = nm.diff(exp_to, got_to)
        if d:
            for path_, e, g in d[:2]:
                res["findings"].append(finding("state", tx, okind,
                                               {"path": path_, "expected": e, "observed": g, "gpath": generic(path_)},
                                               facet=nm.facet_of(path_), conc=conc))
            return res
        if sess.reg.problems:
            res["findings"].append(finding("ids", tx, okind, {"problems": sess.reg.problems[:3]}, conc=conc))
        # every long-lived handle must report the same as the file (nothing stale on handle objects)
        state_to = tx["from"] if same else tx["to"]
        want_sh = nm.expected_shallow(state_to, conc)
        for label, store in (("kept_from_creation", sess.handles), ("second_long_lived", sess.handles_b)):
            for num, h in list(store.items()):
                if num not in want_sh:
                    continue
                got_sh = sess.shallow(num, h)
                d = nm.diff(want_sh[num], got_sh)
                if d:
                    res["findings"].append(finding(
                        "handle", tx, okind,
                        {"path": d[0][0], "expected": d[0][1], "observed": d[0][2], "handle": label,
                         "entity_kind": sess.meta[num][0], "gpath": "%s%s" % (sess.meta[num][0], generic(d[0][0]))},
                        conc=conc))
                    return res
        if act["name"] == "Copy" and want_ok and getattr(sess, "copy_returned", None) is False:
            res["findings"].append(finding("copy_returned", tx, okind,
                                           {"what": "the handle returned by the copying call does not denote the copy",
                                            "keep_id": act["keep"]}, conc=conc))
        # 3. probes on the reached state
        for probe in opts.get("probes", ()):
            res["probes"] += 1
            PROBES[probe](sess, tx, exp_to, conc, res, okind)
        return res
    finally:
        sess.close()


def replay_walk(item):
    """
    One simulated behaviour (TLC -simulate): the calls are executed one after the other in ONE session - no reopen in
    between, long-lived handles warm (touch) - and after every call outcome, full projection and every long-lived
    handle are compared with the specification state of that step; the probes run on the final state.
    """
    opts = _W["opts"]
    nixio = _W["nixio"]
    _W["n"] += 1
    walk = item["walk"]
    first = walk[0]
    conc, cseed = conc_for({"act": first["act"], "hist": [len(walk)]}, opts)
    path = os.path.join(_W["dir"], "w%d.nix" % (_W["n"] % 4))
    res = {"findings": [], "truncated": 0, "calls": 0, "probes": 0, "refusals": [], "steps": 0}
    sess = nm.Session(nixio, path, conc, how_seed=cseed)
    try:
        exp = nm.expected(first["from"], conc)
        cur = first["from"]
        for k, step in enumerate(walk):
            tx = {"hist": [w["act"] for w in walk[:k]], "act": step["act"], "from": cur, "to": step["to"],
                  "obs": step.get("obs", [])}
            act = step["act"]
            okind = kind_of(tx, act)
            if opts.get("noise", True) and sess.rnd.random() < 0.1:
                accepted = sess.noise(cur)
                if accepted:
                    res["findings"].append(finding("noise", tx, okind, {"what": "refused_call_accepted", "call": accepted,
                                                                        "in_walk_at_step": k + 1}, conc=conc))
                    return res
            out = sess.apply(act)
            res["calls"] += 1
            res["steps"] += 1
            want_ok = act["out"] == "ok"
            if not out.ok:
                res["refusals"].append((act["name"], okind, act["out"], out.cls))
            if out.ok != want_ok:
                res["findings"].append(finding(
                    "outcome", tx, okind,
                    {"expected": act["out"], "observed": "ok" if out.ok else "raised %s: %s" % (out.cls, str(out.exc)[:200]),
                     "in_walk_at_step": k + 1}, conc=conc))
                return res
            same = step["to"].get("same")
            exp = exp if same else nm.expected(step["to"], conc)
            got = nm.project(sess.nf, sess.reg)
            d = nm.diff(exp, got)
            if d:
                for path_, e, g in d[:1]:
                    res["findings"].append(finding("state", tx, okind,
                                                   {"path": path_, "expected": e, "observed": g, "gpath": generic(path_),
                                                    "in_walk_at_step": k + 1}, facet=nm.facet_of(path_), conc=conc))
                return res
            state_to = cur if same else step["to"]
            cur = state_to
            want_sh = nm.expected_shallow(state_to, conc)
            for label, store in (("kept_from_creation", sess.handles), ("second_long_lived", sess.handles_b)):
                for num, h in list(store.items()):
                    if num not in want_sh:
                        continue
                    dd = nm.diff(want_sh[num], sess.shallow(num, h))
                    if dd:
                        res["findings"].append(finding(
                            "handle", tx, okind,
                            {"path": dd[0][0], "expected": dd[0][1], "observed": dd[0][2], "handle": label,
                             "entity_kind": sess.meta[num][0], "in_walk_at_step": k + 1,
                             "gpath": "%s%s" % (sess.meta[num][0], generic(dd[0][0]))}, conc=conc))
                        return res
            if sess.reg.problems:
                res["findings"].append(finding("ids", tx, okind, {"problems": sess.reg.problems[:3]}, conc=conc))
                return res
            sess.touch()
            # ids of deleted entities are probed now and then, not after every call: asking for a dead id can itself
            # repair what a handle remembers about it
            if "dead_ids" in opts.get("probes", ()) and sess.rnd.random() < 0.3:
                n0 = len(res["findings"])
                probe_dead_ids(sess, tx, exp, conc, res, okind)
                if len(res["findings"]) > n0:
                    return res
        for probe in opts.get("probes", ()):
            res["probes"] += 1
            PROBES[probe](sess, tx, exp, conc, res, okind)
        return res
    finally:
        sess.close()


def probe_reopen(sess, tx, exp_to, conc, res, okind):
    """C02: close + reopen (read-only, then read-write) shows exactly the state before closing."""
    nixio = sess.nixio
    for mode, label in ((nixio.FileMode.ReadOnly, "ro"), (nixio.FileMode.ReadWrite, "rw")):
        try:
            nf = sess.reopen(mode)
        except Exception as exc:  # noqa
            res["findings"].append(finding("reopen-" + label, tx, okind, {"raised": repr(exc)[:200]}, conc=conc))
            return
        got = nm.project(nf, sess.reg)
        d = nm.diff(exp_to, got)
        for path_, e, g in d[:2]:
            res["findings"].append(finding("reopen-" + label, tx, okind,
                                           {"path": path_, "expected": e, "observed": g, "gpath": generic(path_)},
                                           facet=nm.facet_of(path_), conc=conc))
        if d:
            return


def probe_attrs(sess, tx, exp_to, conc, res, okind):
    """
    C02 for the descriptive attributes the entity-graph model does not carry: on the reached state a seeded choice of
    them is set (non-ASCII and empty text, None after a value, numeric lists of several lengths, every kind of
    dimension descriptor), then the file is closed and reopened read-only and read-write: project_extras before
    closing = after reopening.
    """
    state = tx["from"] if tx["to"].get("same") else tx["to"]
    rnd = sess.rnd
    pick = rnd.choice
    if rnd.random() < 0.6:
        return          # a seeded 40 % of the reached states (two more reopens each)
    try:
        for o in state["objs"]:
            k = o["kind"]
            if k not in ("array", "tag", "mtag", "section", "property", "frame") or rnd.random() < 0.3:
                continue
            h = sess.obj(o["id"], fresh=True)
            if k == "array":
                if rnd.random() < 0.7:
                    h.label = pick(["a label", "µV-Etikett 名", "x" * 300])
                    if rnd.random() < 0.3:
                        h.label = None
                if rnd.random() < 0.7:
                    h.unit = pick(["mV", "ms", "kHz"])
                    if rnd.random() < 0.3:
                        h.unit = None
                if rnd.random() < 0.6:
                    h.polynom_coefficients = pick([[1.0, 2.0], [0.0], [-1.5, 0.25, 3.0], [0.0, 0.0, 0.0, 0.0, 1.0]])
                    if rnd.random() < 0.3:
                        h.polynom_coefficients = None
                if rnd.random() < 0.6:
                    h.expansion_origin = pick([0.5, 0.0, -2.0, 1e300])
                    if rnd.random() < 0.3:
                        h.expansion_origin = None
                for _ in range(rnd.randrange(3)):
                    how = rnd.randrange(3)
                    if how == 0:
                        d = h.append_sampled_dimension(pick([0.25, 1.0, 1e-9]), label=pick([None, "Zeit"]), unit=pick([None, "ms"]),
                                                       offset=pick([None, -1.5, 0.0, 7.0]))
                        if rnd.random() < 0.3:
                            d.offset = pick([0.0, 2.5])
                    elif how == 1:
                        d = h.append_range_dimension(ticks=pick([[1.0], [0.5, 0.75, 9.0], [-3.0, 0.0]]), label=pick([None, "x"]),
                                                     unit=pick([None, "s"]))
                        if rnd.random() < 0.3:
                            d.ticks = [2.0, 4.0]
                    else:
                        d = h.append_set_dimension(labels=pick([None, ["a", "b"], ["ü", ""]]))
                        if rnd.random() < 0.3:
                            d.labels = ["only"]
            elif k == "tag":
                h.position = pick([[1.0], [1.5, -2.0], [0.0, 0.0, 3.25]])
                if rnd.random() < 0.7:
                    h.extent = pick([[1.0], [0.5, 2.0], [0.0, 0.0, 0.0]])
                    if rnd.random() < 0.3:
                        h.extent = None
                if rnd.random() < 0.7:
                    h.units = pick([["ms"], ["mV", "s"], ["s", "s", "s"]])
                    if rnd.random() < 0.3:
                        h.units = None
            elif k == "mtag":
                if rnd.random() < 0.7:
                    h.units = pick([["ms"], ["mV", "s"]])
                    if rnd.random() < 0.3:
                        h.units = None
            elif k == "section":
                if rnd.random() < 0.7:
                    h.reference = pick(["ref", "réf 名"])
                    if rnd.random() < 0.3:
                        h.reference = None
                if rnd.random() < 0.7:
                    h.repository = pick(["http://repo/x", "ü"])
                    if rnd.random() < 0.3:
                        h.repository = None
            elif k == "property":
                if rnd.random() < 0.7:
                    h.unit = pick(["mV", "s"])
                    if rnd.random() < 0.3:
                        h.unit = None
                if rnd.random() < 0.7:
                    h.uncertainty = pick([0.5, 0.0, 1e-12])
                    if rnd.random() < 0.3:
                        h.uncertainty = None
                if rnd.random() < 0.5:
                    h.reference = pick(["r", "ü"])
                if rnd.random() < 0.5:
                    h.value_origin = pick(["somewhere", "名"])
                if rnd.random() < 0.5:
                    h.dependency = "dep"
                    h.dependency_value = pick(["v", "ü"])
            elif k == "frame":
                if rnd.random() < 0.7:
                    h.units = pick([["mV", "s"], [None, "ms"]])
    except Exception as exc:  # noqa
        res["findings"].append(finding("reopen-extras", tx, okind, {"what": "setter_raises", "raised": repr(exc)[:200]}, conc=conc))
        return
    res["attr_probes"] = res.get("attr_probes", 0) + 1
    before = nm.project_extras(sess.nf)
    nixio = sess.nixio
    for mode, label in ((nixio.FileMode.ReadOnly, "ro"), (nixio.FileMode.ReadWrite, "rw")):
        try:
            nf = sess.reopen(mode)
        except Exception as exc:  # noqa
            res["findings"].append(finding("reopen-extras", tx, okind, {"what": "reopen_raises", "mode": label,
                                                                         "raised": repr(exc)[:200]}, conc=conc))
            return
        d = nm.diff(before, nm.project_extras(nf))
        if d:
            path_, e, g = d[0]
            res["findings"].append(finding("reopen-extras", tx, okind,
                                           {"what": "differs", "mode": label, "path": path_, "expected": e, "observed": g,
                                            "gpath": generic(path_)}, conc=conc))
            return


def _walk_containers(sess, state):
    """(label, container, expected member object records in creation order, is_link_list)"""
    objs = {o["id"]: o for o in state["objs"]}
    out = []
    for owner in [0] + [o["id"] for o in state["objs"]]:
        okind = "file" if owner == 0 else objs[owner]["kind"]
        for cname, ckind in nm.CONTAINERS.get(okind, ()):
            members = [c for c in state["objs"] if c["owner"] == owner and c["kind"] == ckind]
            out.append(("%s.%s" % (okind, cname), lambda o=owner, k=ckind: sess.container_of(o, k), members, False))
        if owner:
            for ln in nm.LISTS.get(okind, ()):
                members = [objs[x] for x in objs[owner]["ls"][ln]]
                out.append(("%s.links:%s" % (okind, ln), lambda o=owner, l=ln: getattr(sess.obj(o), l), members, True))
    return out


def probe_lookups(sess, tx, exp_to, conc, res, okind):
    """
    C03: for every container of the reached state, len / iteration / positional index (negative too) /
    lookup by name / lookup by id / membership / items() describe the same sequence (creation order).
    """
    state = tx["from"] if tx["to"].get("same") else tx["to"]

    def bad(label, what, detail):
        res["findings"].append(finding("lookup", tx, okind, dict(detail, container=label, what=what),
                                       conc=conc))

    for label, getc, members, islink in _walk_containers(sess, state):
        try:
            cont = getc()
        except Exception as exc:  # noqa
            bad(label, "container", {"raised": repr(exc)[:200]})
            continue
        n = len(members)
        if any(m["kind"] == "feature" and not m["rl"]["data"] for m in members):
            continue   # a feature whose data array was deleted: what its container's lookups do is left open
        want_ids = [sess.uuid[m["id"]] for m in members]
        want_names = [conc.name(m["name"]) if m["kind"] != "feature" else None for m in members]
        try:
            if len(cont) != n:
                bad(label, "len", {"expected": n, "observed": len(cont)})
                continue
            it_ids = [e.id for e in cont]
            if it_ids != want_ids:
                bad(label, "iteration", {"expected": want_names, "observed": [getattr(e, "name", None) for e in cont]})
                continue
            for i in range(-n, n):
                e = cont[i]
                if e.id != want_ids[i]:
                    bad(label, "index", {"index": i, "expected": want_names[i], "observed": getattr(e, "name", None)})
            for i in (n, -n - 1):
                try:
                    cont[i]
                    bad(label, "index_oob_accepted", {"index": i, "len": n})
                except IndexError:
                    pass
            its = list(cont.items())
            if [k for k, _ in its] != want_ids or [v.id for _, v in its] != want_ids:
                bad(label, "items", {"expected": want_ids, "observed": [k for k, _ in its]})
            for i, m in enumerate(members):
                uid, name = want_ids[i], want_names[i]
                pool = conc.pool_name
                # by id
                try:
                    if cont[uid].id != uid:
                        bad(label, "by_id_wrong_entity", {"pool": pool})
                except Exception as exc:  # noqa
                    bad(label, "by_id_raises", {"pool": pool, "raised": type(exc).__name__})
                if uid not in cont:
                    bad(label, "id_not_in", {"pool": pool})
                handle = cont[i]
                try:
                    if handle not in cont:
                        bad(label, "entity_not_in", {"pool": pool})
                except Exception as exc:  # noqa
                    bad(label, "entity_in_raises", {"pool": pool, "raised": type(exc).__name__})
                if name is None:
                    continue
                # by name (a link list may hold two entities of one name from different parents: either is right)
                same = [want_ids[j] for j in range(n) if want_names[j] == name]
                try:
                    if cont[name].id not in same:
                        bad(label, "by_name_wrong_entity", {"pool": pool, "name": name[:40]})
                except Exception as exc:  # noqa
                    bad(label, "by_name_raises", {"pool": pool, "name": name[:40], "raised": type(exc).__name__})
                try:
                    if name not in cont:
                        bad(label, "name_not_in", {"pool": pool, "name": name[:40]})
                except Exception as exc:  # noqa
                    bad(label, "name_in_raises", {"pool": pool, "name": name[:40], "raised": type(exc).__name__})
            # names / ids of same-kind entities that are NOT members (link lists: entities elsewhere in the block)
            if islink and members:
                for o in state["objs"]:
                    if o["kind"] != members[0]["kind"] or o["kind"] == "feature" or o["id"] in [m["id"] for m in members]:
                        continue
                    oname, oid = conc.name(o["name"]), sess.uuid[o["id"]]
                    if oid in want_ids:
                        continue        # an id-keeping copy of a member shares the member's id
                    if oid in cont:
                        bad(label, "non_member_id_in", {"name": oname[:40]})
                    if oname not in want_names:
                        try:
                            cont[oname]
                            bad(label, "non_member_name_found", {"name": oname[:40]})
                        except KeyError:
                            pass
                        if oname in cont:
                            bad(label, "non_member_name_in", {"name": oname[:40]})
            # absent keys
            absent_name = "absent-%d" % n
            try:
                cont[absent_name]
                bad(label, "absent_name_found", {})
            except KeyError:
                pass
            except Exception as exc:  # noqa
                bad(label, "absent_name_wrong_error", {"raised": type(exc).__name__})
            if absent_name in cont:
                bad(label, "absent_name_in", {})
            absent_id = "00000000-0000-4000-8000-%012d" % n
            try:
                cont[absent_id]
                bad(label, "absent_id_found", {})
            except KeyError:
                pass
            except Exception as exc:  # noqa
                bad(label, "absent_id_wrong_error", {"raised": type(exc).__name__})
            if absent_id in cont:
                bad(label, "absent_id_in", {})
        except Exception as exc:  # noqa
            bad(label, "probe_raised", {"raised": repr(exc)[:200]})


def probe_dead_ids(sess, tx, exp_to, conc, res, okind):
    """
    C03 / C02: the id of a deleted entity is unknown to the container it lived in - through every long-lived handle of
    the parent and through a fresh one - even when a new entity took over its name.
    """
    state = tx["from"] if tx["to"].get("same") else tx["to"]
    alive = {o["id"] for o in state["objs"]}
    live_uuids = {sess.uuid[n] for n in alive if n in (sess.uuid or {})}
    attr = {"block": "blocks", "section": "sections", "group": "groups", "array": "data_arrays", "frame": "data_frames",
            "tag": "tags", "mtag": "multi_tags", "source": "sources", "feature": "features", "property": "props"}
    for num, uid in list((sess.uuid or {}).items()):
        if num in alive or uid in live_uuids:
            continue
        kind, owner, _ = sess.meta[num]
        if owner != 0 and owner not in alive:
            continue
        parents = [("fresh", sess.nf if owner == 0 else None)]
        if owner != 0:
            try:
                parents = [("fresh", sess.obj(owner, fresh=True))]
            except Exception:  # noqa
                continue
            if owner in sess.handles:
                parents.append(("kept_from_creation", sess.handles[owner]))
            if owner in sess.handles_b:
                parents.append(("second_long_lived", sess.handles_b[owner]))
        # a handle of the deleted entity that a client still holds is not a member either (asked only while no live
        # sibling has taken over the name: the handle then denotes that entity)
        dead_h = getattr(sess, "dead_handles", {}).get(num)
        name_reused = any(o["owner"] == owner and o["kind"] == kind and o["name"] == sess.meta[num][2] for o in state["objs"])
        if dead_h is not None and kind not in ("feature",) and not name_reused:
            try:
                cont = getattr(parents[0][1], attr[kind])
                if dead_h in cont:
                    res["findings"].append(finding("lookup", tx, okind,
                                                   {"container": "%s.%s" % ("file" if owner == 0 else sess.meta[owner][0], attr[kind]),
                                                    "what": "handle_of_deleted_entity_is_member"}, conc=conc))
                    return
            except Exception:  # noqa
                pass
        for label, parent in parents:
            try:
                cont = getattr(parent, attr[kind])
                found = uid in cont
                try:
                    cont[uid]
                    got = True
                except KeyError:
                    got = False
                if found or got:
                    res["findings"].append(finding("lookup", tx, okind,
                                                   {"container": "%s.%s" % ("file" if owner == 0 else sess.meta[owner][0], attr[kind]),
                                                    "what": "id_of_deleted_entity_still_resolves", "handle": label,
                                                    "in": found, "getitem": got}, conc=conc))
                    return
            except Exception as exc:  # noqa
                res["findings"].append(finding("lookup", tx, okind,
                                               {"container": attr[kind], "what": "dead_id_lookup_raises",
                                                "raised": type(exc).__name__}, conc=conc))
                return


def probe_free_name(sess, tx, exp_to, conc, res, okind):
    """C12: after a create refused for another reason than duplication the rejected (valid) name is still available."""
    act = tx["act"]
    if act["name"] != "CreateBad" or act["why"] != "EmptyType":
        return
    good = dict(act, name="Create")
    k, p = act["kind"], act["owner"]
    parent = sess.nf if p == 0 else sess.obj(p)
    nm_ = getattr(sess, "last_free_name", None)
    if nm_ is None:
        return
    try:
        tp = conc.typ(1)
        if k == "block":
            parent.create_block(nm_, tp)
        elif k == "group":
            parent.create_group(nm_, tp)
        elif k == "array":
            parent.create_data_array(nm_, tp, data=[1.0])
        elif k == "frame":
            from collections import OrderedDict
            parent.create_data_frame(nm_, tp, col_dict=OrderedDict([("a", int)]), data=[(1,)])
        elif k == "tag":
            parent.create_tag(nm_, tp, [1.0])
        elif k == "source":
            parent.create_source(nm_, tp)
        elif k == "section":
            parent.create_section(nm_, tp)
        else:
            return
    except Exception as exc:  # noqa
        res["findings"].append(finding("name_still_free", tx, okind,
                                       {"raised": repr(exc)[:200], "name": nm_[:40]}, conc=conc))


def probe_searches(sess, tx, exp_to, conc, res, okind):
    """
    C13: tree searches (every root, every limit, name filters), parents and referring lists on the reached
    state - on handles kept from creation and on fresh handles.
    """
    state = tx["from"] if tx["to"].get("same") else tx["to"]
    objs = {o["id"]: o for o in state["objs"]}

    def bad(what, detail):
        res["findings"].append(finding("search", tx, okind, dict(detail, what=what), conc=conc))

    def names(ids):
        return [conc.name(objs[i]["name"])[:24] if i in objs else i for i in ids]

    for fresh in (False, True):
        mode = "fresh" if fresh else "kept"
        for it in tx.get("obs", ()):
            root, kind, limit, want = it["root"], it["kind"], it["limit"], it["res"]
            lim = None if limit == 1000 else limit
            try:
                r = sess.nf if root == 0 else sess.obj(root, fresh=fresh)
                fn = r.find_sections if kind == "section" else r.find_sources
                got = fn(limit=lim) if lim is not None else fn()
                got_ids = [e.id for e in got]
                want_ids = [sess.uuid[i] for i in want]
                rk = "file" if root == 0 else objs[root]["kind"]
                if got_ids != want_ids:
                    what = ("order" if sorted(got_ids) == sorted(want_ids) else "members")
                    bad("find_%ss/%s/%s" % (kind, rk, what),
                        {"limit": lim, "expected": names(want), "observed": [getattr(e, "name", "?")[:24] for e in got],
                         "handle": mode})
                    continue
                for nmtok in sorted(set(objs[i]["name"] for i in want)):
                    cn = conc.name(nmtok)
                    sub = fn(filtr=lambda x: x.name == cn, limit=lim) if lim is not None else fn(filtr=lambda x: x.name == cn)
                    wsub = [sess.uuid[i] for i in want if objs[i]["name"] == nmtok]
                    if [e.id for e in sub] != wsub:
                        bad("find_%ss/%s/filtered" % (kind, rk), {"limit": lim, "name": cn[:24], "expected_n": len(wsub),
                                                                  "observed_n": len(sub), "handle": mode})
            except Exception as exc:  # noqa
                bad("find_%ss/raises" % kind, {"root": root, "limit": lim, "raised": repr(exc)[:160], "handle": mode})
        # parents
        for o in state["objs"]:
            if o["kind"] not in ("section", "source"):
                continue
            try:
                h = sess.obj(o["id"], fresh=fresh)
                own = o["owner"]
                want_parent = own if (own != 0 and objs[own]["kind"] == o["kind"]) else None
                got = h.parent if o["kind"] == "section" else h.parent_source
                got_id = None if got is None else got.id
                want_id = None if want_parent is None else sess.uuid[want_parent]
                if got_id != want_id:
                    bad("parent/%s" % o["kind"], {"entity": conc.name(o["name"])[:24],
                                                 "expected": None if want_parent is None else conc.name(objs[want_parent]["name"])[:24],
                                                 "observed": None if got is None else got.name[:24], "handle": mode})
                if o["kind"] == "source":
                    b = o
                    while b["kind"] != "block":
                        b = objs[b["owner"]]
                    pb = h.parent_block
                    if pb is None or pb.id != sess.uuid[b["id"]]:
                        bad("parent_block", {"entity": conc.name(o["name"])[:24], "handle": mode})
            except Exception as exc:  # noqa
                bad("parent/raises", {"kind": o["kind"], "raised": repr(exc)[:160], "handle": mode})
        # ... the same answers from handles obtained through LINKS (an entity's .sources list, its .metadata)
        for x in state["objs"]:
            try:
                via = []
                if x["kind"] in ("array", "tag", "mtag", "group") and x["ls"].get("sources"):
                    hx = sess.obj(x["id"], fresh=fresh)
                    lst = list(hx.sources)
                    for i, sid in enumerate(x["ls"]["sources"]):
                        via.append(("sources_list", objs[sid], lst[i] if i < len(lst) else None))
                        via.append(("sources_list_by_id", objs[sid], hx.sources[sess.uuid[sid]]))
                if x["kind"] != "property" and x.get("rl", {}).get("metadata") not in (None, 0):
                    hx = sess.obj(x["id"], fresh=fresh)
                    via.append(("metadata_link", objs[x["rl"]["metadata"]], hx.metadata))
                for how, o, h in via:
                    if h is None or h.id != sess.uuid[o["id"]]:
                        continue            # (what the link yields is C05's business)
                    own = o["owner"]
                    want_parent = own if (own != 0 and objs[own]["kind"] == o["kind"]) else None
                    got = h.parent if o["kind"] == "section" else h.parent_source
                    got_id = None if got is None else got.id
                    want_id = None if want_parent is None else sess.uuid[want_parent]
                    if got_id != want_id:
                        bad("parent/%s/via_%s" % (o["kind"], how),
                            {"entity": conc.name(o["name"])[:24], "linked_from": x["kind"],
                             "expected": None if want_parent is None else conc.name(objs[want_parent]["name"])[:24],
                             "observed": None if got is None else got.name[:24], "handle": mode})
                    if o["kind"] == "source":
                        b = o
                        while b["kind"] != "block":
                            b = objs[b["owner"]]
                        pb = h.parent_block
                        if pb is None or pb.id != sess.uuid[b["id"]]:
                            bad("parent_block/via_%s" % how, {"entity": conc.name(o["name"])[:24], "handle": mode})
            except Exception as exc:  # noqa
                bad("parent/raises_via_link", {"kind": x["kind"], "raised": repr(exc)[:160], "handle": mode})
        # referring lists = inverse of the stored links
        for o in state["objs"]:
            try:
                if o["kind"] == "section":
                    h = sess.obj(o["id"], fresh=fresh)
                    for attr, k in (("referring_blocks", "block"), ("referring_groups", "group"),
                                    ("referring_data_arrays", "array"), ("referring_tags", "tag"),
                                    ("referring_multi_tags", "mtag"), ("referring_sources", "source")):
                        want = sorted(sess.uuid[x["id"]] for x in state["objs"]
                                      if x["kind"] == k and x["rl"]["metadata"] == o["id"])
                        got = sorted(e.id for e in getattr(h, attr))
                        if got != want:
                            nested = (k == "source" and any(x["kind"] == "source" and x["rl"]["metadata"] == o["id"]
                                                            and objs[x["owner"]]["kind"] == "source" for x in state["objs"]))
                            bad("%s%s" % (attr, "/nested_source" if nested else ""),
                                {"expected_n": len(want), "observed_n": len(got), "handle": mode})
                    want_all = sorted(sess.uuid[x["id"]] for x in state["objs"] if x["rl"]["metadata"] == o["id"])
                    got_all = sorted(e.id for e in h.referring_objects)
                    if got_all != want_all and not any(
                            x["kind"] == "source" and x["rl"]["metadata"] == o["id"] and objs[x["owner"]]["kind"] == "source"
                            for x in state["objs"]):
                        bad("referring_objects/section", {"expected_n": len(want_all), "observed_n": len(got_all), "handle": mode})
                elif o["kind"] == "source":
                    h = sess.obj(o["id"], fresh=fresh)
                    for attr, k in (("referring_data_arrays", "array"), ("referring_tags", "tag"),
                                    ("referring_multi_tags", "mtag")):
                        want = sorted(sess.uuid[x["id"]] for x in state["objs"]
                                      if x["kind"] == k and o["id"] in x["ls"]["sources"])
                        got = sorted(e.id for e in getattr(h, attr))
                        if got != want:
                            bad("source.%s" % attr, {"expected_n": len(want), "observed_n": len(got), "handle": mode})
            except Exception as exc:  # noqa
                bad("referring/raises", {"kind": o["kind"], "raised": repr(exc)[:160], "handle": mode})
        if not fresh:
            # second pass on fresh handles after reopening (no cached parents)
            try:
                sess.reopen(sess.nixio.FileMode.ReadOnly)
            except Exception as exc:  # noqa
                bad("reopen", {"raised": repr(exc)[:160]})
                return


def probe_stamps(sess, tx, exp_to, conc, res, okind):
    """
    C19 for the descriptive attributes the entity-graph model does not carry individually (label, unit, calibration,
    position, extent, units, reference, repository, adding a dimension): after a clock tick each setter is applied to
    an entity of the reached state; with automatic timestamps on, exactly that entity's updated_at moves to the
    current time; with them off nothing moves; created_at never moves.
    """
    state = tx["from"] if tx["to"].get("same") else tx["to"]
    setters = {
        "array": [("label", lambda e: setattr(e, "label", "a label")), ("unit", lambda e: setattr(e, "unit", "mV")),
                  # (identity calibration: the values read stay the same, so everything else in the projection must too)
                  ("expansion_origin", lambda e: setattr(e, "expansion_origin", 0.0)),
                  ("polynom_coefficients", lambda e: setattr(e, "polynom_coefficients", [0.0, 1.0])),
                  ("append_dimension", lambda e: e.append_set_dimension())],
        "tag": [("position", lambda e: setattr(e, "position", [2.0])), ("extent", lambda e: setattr(e, "extent", [1.0])),
                ("units", lambda e: setattr(e, "units", ["ms"]))],
        "mtag": [("units", lambda e: setattr(e, "units", ["ms"]))],
        "section": [("reference", lambda e: setattr(e, "reference", "ref")),
                    ("repository", lambda e: setattr(e, "repository", "http://repo"))],
    }
    cands = [o for o in state["objs"] if o["kind"] in setters]
    sess.rnd.shuffle(cands)
    for o in cands[:2]:
        for attr, fn in setters[o["kind"]]:
            if sess.clock + 1 >= len(conc.times):
                return
            before = nm.project(sess.nf, sess.reg)
            sess.clock += 1
            now = conc.time(sess.clock)
            try:
                h = sess.obj(o["id"])
                fn(h)
                stamp = h.updated_at
            except Exception as exc:  # noqa
                res["findings"].append(finding("stamps", tx, okind, {"what": "setter_raises", "attr": attr, "kind": o["kind"],
                                                                     "raised": repr(exc)[:160]}, facet="time", conc=conc))
                return
            res["stamp_probes"] = res.get("stamp_probes", 0) + 1
            after = nm.project(sess.nf, sess.reg)
            diffs = nm.diff(before, after, limit=8)
            moved = [d for d in diffs if d[0].rsplit("/", 1)[-1] == "u"]
            other = [d for d in diffs if d[0].rsplit("/", 1)[-1] != "u"]
            what = None
            if other:
                what = "other_state_changed"
            elif sess.auto and (stamp != now or len(moved) > 1):
                # (no difference at all is fine when the entity's update time already was the current time)
                what = "updated_at_not_current" if stamp != now else "update_time_of_other_entity_moved"
            elif not sess.auto and moved:
                what = "timestamp_moved_with_auto_disabled"
            if what:
                res["findings"].append(finding("stamps", tx, okind,
                                               {"what": what, "attr": attr, "kind": o["kind"], "auto": sess.auto,
                                                "expected_now": now, "observed": stamp,
                                                "diffs": [list(map(str, d))[:3] for d in diffs[:3]]}, facet="time", conc=conc))
                return


def _mask_ids(tree):
    if isinstance(tree, dict):
        return {k: ("*" if k == "eid" else _mask_ids(v)) for k, v in tree.items()}
    if isinstance(tree, list):
        return [_mask_ids(v) for v in tree]
    return tree


def _collect(tree, key, out):
    if isinstance(tree, dict):
        for k, v in tree.items():
            if k == key and not isinstance(v, (dict, list)):
                out.append(v)
            else:
                _collect(v, key, out)
    elif isinstance(tree, list):
        for v in tree:
            _collect(v, key, out)
    return out


def probe_xcopy(sess, tx, exp_to, conc, res, okind):
    """
    C20, other file: a top-level block / section / (link-free) array of the reached state is copied into a second file
    with both id policies; the copy must read like the source (ids kept, or all fresh, unique and different from every
    id of the source file), and mutating either side must not be visible on the other.
    """
    nixio = sess.nixio
    state = tx["from"] if tx["to"].get("same") else tx["to"]
    objs = {o["id"]: o for o in state["objs"]}
    rnd = sess.rnd

    def subtree(root):
        sub, grew = {root}, True
        while grew:
            grew = False
            for o in state["objs"]:
                if o["owner"] in sub and o["id"] not in sub:
                    sub.add(o["id"])
                    grew = True
        return sub

    def closed(sub):
        for i in sub:
            o = objs[i]
            for l in o["ls"].values():
                if any(x not in sub for x in l):
                    return False
            if any(v and v not in sub for v in o["rl"].values()):
                return False
        return True

    def bad(what, detail):
        res["findings"].append(finding("xcopy", tx, okind, dict(detail, what=what), conc=conc))

    # same file, entity with metadata attached (the one link that leaves the copied subtree): the copy gets its own
    # duplicate of the section, so a change of the metadata through the copy must not reach the source's section
    withmeta = [o for o in state["objs"] if o["kind"] in ("array", "tag") and o["rl"]["metadata"]
                and closed(subtree(o["id"]) | subtree(o["rl"]["metadata"]))]
    rnd.shuffle(withmeta)
    for o in withmeta[:1]:
        try:
            src = sess.obj(o["id"])
            blk = sess.obj(o["owner"])
            newname = "copy of " + conc.name(o["name"])[:40]
            cp = (blk.create_data_array(name=newname, copy_from=src, keep_copy_id=False) if o["kind"] == "array"
                  else blk.create_tag(name=newname, copy_from=src, keep_copy_id=False))
            res["metacopies"] = res.get("metacopies", 0) + 1
            sm, cm = src.metadata, cp.metadata
            if cm is None or cm.name != sm.name or cm.definition != sm.definition:
                bad("samefile/%s_with_metadata/copy_differs" % o["kind"], {"copy_metadata": None if cm is None else cm.name})
            else:
                cm.definition = "changed through the copy"
                got_sections = nm.project(sess.nf, sess.reg)["sections"]
                d = nm.diff(exp_to["sections"], got_sections)
                if d or src.metadata.definition == "changed through the copy":
                    bad("samefile/%s_with_metadata/change_of_copy_metadata_visible_in_source" % o["kind"],
                        {"path": d[0][0] if d else "src.metadata.definition"})
                else:
                    old = sm.definition
                    sm.definition = "changed through the source"
                    seen = cp.metadata.definition
                    sm.definition = old
                    if seen == "changed through the source":
                        bad("samefile/%s_with_metadata/change_of_source_metadata_visible_in_copy" % o["kind"], {})
            # take the copy out again: the cross-file part below compares the source file with the specification state
            cont = blk.data_arrays if o["kind"] == "array" else blk.tags
            del cont[newname]
        except Exception as exc:  # noqa
            bad("samefile/%s_with_metadata/raises" % o["kind"], {"raised": repr(exc)[:300]})
    cands = [o for o in state["objs"] if (o["kind"] in ("block", "section") and o["owner"] == 0) or o["kind"] == "array"]
    cands = [o for o in cands if closed(subtree(o["id"]))]
    rnd.shuffle(cands)
    path2 = sess.path + ".copy.nix"
    for o in cands[:2]:
        keep = rnd.random() < 0.5
        kind = o["kind"]
        label = "%s/%s" % (kind, "keep_id" if keep else "fresh_id")
        f2 = nixio.File.open(path2, nixio.FileMode.Overwrite)
        try:
            src = sess.obj(o["id"])
            # expected node of the source in the projection of file 1
            if kind == "block":
                idx = [b["id"] for b in state["objs"] if b["kind"] == "block"].index(o["id"])
                want = exp_to["blocks"][idx]
                ret = f2.create_block(copy_from=src, keep_copy_id=keep)
                getnode = lambda t: t["blocks"][0]  # noqa
            elif kind == "section":
                idx = [b["id"] for b in state["objs"] if b["kind"] == "section" and b["owner"] == 0].index(o["id"])
                want = exp_to["sections"][idx]
                ret = f2.copy_section(src, keep_id=keep)
                getnode = lambda t: t["sections"][0]  # noqa
            else:
                blocks = [b["id"] for b in state["objs"] if b["kind"] == "block"]
                bi = blocks.index(o["owner"])
                ai = [a["id"] for a in state["objs"] if a["kind"] == "array" and a["owner"] == o["owner"]].index(o["id"])
                want = exp_to["blocks"][bi]["data_arrays"][ai]
                b2 = f2.create_block("dest", "t")
                ret = b2.create_data_array(copy_from=src, keep_copy_id=keep)
                getnode = lambda t: t["blocks"][0]["data_arrays"][0]  # noqa
            res["xcopies"] = res.get("xcopies", 0) + 1
            reg2 = sess.reg if keep else nm.Registry()
            got = getnode(nm.project(f2, reg2))
            w, g = (want, got) if keep else (_mask_ids(want), _mask_ids(got))
            d = nm.diff(nm.strip_times(w), nm.strip_times(g))
            if d:
                bad(label + "/copy_differs", {"path": d[0][0], "expected": d[0][1], "observed": d[0][2]})
                continue
            if ret is None or ret.id != (f2.blocks[0].id if kind == "block" else f2.sections[0].id if kind == "section"
                                         else f2.blocks[0].data_arrays[0].id):
                bad(label + "/returned_handle", {})
            if not keep:
                ids2 = [x[len("unknown-id:"):] for x in _collect(got, "eid", []) if isinstance(x, str) and x.startswith("unknown-id:")]
                known = [x for x in _collect(got, "eid", []) if isinstance(x, str) and not x.startswith("unknown-id:")]
                if known:
                    bad(label + "/id_of_source_reused", {"tokens": known[:4]})
                if len(set(ids2)) != len(ids2) and kind != "block":
                    bad(label + "/fresh_ids_not_unique", {"ids": ids2[:6]})
            # independence: change the copy, the source file must read as before ...
            root2 = f2.blocks[0] if kind == "block" else f2.sections[0] if kind == "section" else f2.blocks[0].data_arrays[0]
            root2.definition = "changed in the copy"
            if kind == "block" and len(root2.data_arrays):
                root2.data_arrays[0][:] = [-1.0, -2.0, -3.0]
            if kind == "array":
                root2[:] = [-1.0, -2.0, -3.0]
            if kind == "section" and len(root2.props):
                root2.props[0].values = [-5, -6]
            d = nm.diff(exp_to, nm.project(sess.nf, sess.reg))
            if d:
                bad(label + "/change_of_copy_visible_in_source", {"path": d[0][0], "expected": d[0][1], "observed": d[0][2]})
                continue
            # ... and vice versa
            before = getnode(nm.project(f2, reg2))
            old = src.definition
            src.definition = "changed in the source"
            after = getnode(nm.project(f2, reg2))
            src.definition = old
            d = nm.diff(before, after)
            if d:
                bad(label + "/change_of_source_visible_in_copy", {"path": d[0][0]})
        except Exception as exc:  # noqa
            bad(label + "/raises", {"raised": repr(exc)[:300]})
        finally:
            try:
                f2.close()
            except Exception:  # noqa
                pass
    # LAST (the copy stays in the file: deleting an id-keeping copy would delete the source as well):
    # same file, a tag / multi-tag with references copied ON ITS OWN (the library gives the copy private duplicates of
    # the referenced arrays): what the copy's reference shows is the array as it was copied; a later write through the
    # source's array must not show in the copy, a write through the copy's reference must not reach the source
    withrefs = [o for o in state["objs"] if o["kind"] == "tag" and o["ls"]["references"]]
    rnd.shuffle(withrefs)
    for o in withrefs[:1]:
        newname = "refcopy of " + conc.name(o["name"])[:40]
        blk = None
        try:
            src = sess.obj(o["id"])
            blk = sess.obj(o["owner"])
            keep = rnd.random() < 0.6
            arr = src.references[0]
            before = nm._listify(arr[:])
            cp = blk.create_tag(name=newname, copy_from=src, keep_copy_id=keep)
            res["refcopies"] = res.get("refcopies", 0) + 1
            label = "samefile/tag_with_references/%s" % ("keep_id" if keep else "fresh_id")
            if len(cp.references) != len(src.references) or nm._listify(cp.references[0][:]) != before:
                bad(label + "/copy_differs", {"expected": before, "observed": nm._listify(cp.references[0][:])})
            else:
                marker = [float(len(before) + 1000.5 + i) for i in range(len(before))]
                arr[:] = np.array(marker).reshape(np.shape(arr[:]))
                seen = nm._listify(cp.references[0][:])
                arr[:] = np.array(before).reshape(np.shape(arr[:]))
                if seen != before:
                    bad(label + "/change_of_source_array_visible_in_copy", {"expected": before, "observed": seen})
                else:
                    cref = cp.references[0]
                    cref[:] = np.array(marker).reshape(np.shape(cref[:]))
                    if nm._listify(arr[:]) != before:
                        bad(label + "/write_through_copy_reached_source", {})
                    elif nm._listify(cp.references[0][:]) != marker:
                        bad(label + "/write_through_copy_lost", {"observed": nm._listify(cp.references[0][:])})
        except Exception as exc:  # noqa
            bad("samefile/tag_with_references/raises", {"raised": repr(exc)[:300]})


PROBES = {"attrs": probe_attrs, "stamps": probe_stamps, "dead_ids": probe_dead_ids, "xcopy": probe_xcopy, "searches": probe_searches, "reopen": probe_reopen, "lookups": probe_lookups, "free_name": probe_free_name}


def _run_batch(batch):
    out = {"findings": [], "truncated": 0, "calls": 0, "probes": 0, "n": 0, "errors": [], "refusals": [], "steps": 0}
    for tx in batch:
        try:
            r = replay_walk(tx) if "walk" in tx else replay_one(tx)
        except core.MachineryError as exc:
            out["errors"].append(str(exc))
            continue
        except Exception as exc:  # noqa
            import traceback
            out["errors"].append(traceback.format_exc()[-1500:])
            continue
        out["n"] += 1
        out["truncated"] += r["truncated"]
        out["calls"] += r["calls"]
        out["probes"] += r["probes"]
        out["findings"].extend(r["findings"])
        out["refusals"].extend(r["refusals"])
        out["steps"] += r.get("steps", 0)
    return out


def _worker_exit(_):
    shutil.rmtree(_W.get("dir", ""), ignore_errors=True)


class ModelRun:
    """Runs TLC on a NixModel configuration and replays the exported transitions in a process pool."""

    def __init__(self, cfg, seed, probes=(), name_pools=None, module="MC_NixModel", workers=None,
                 stride=1, simulate=None, depth=None, tlc_workers=1, timeout=3000, max_tx=None, accept=None):
        self.cfg = cfg
        self.module = module
        self.opts = {"seed": seed, "probes": tuple(probes), "name_pools": name_pools}
        self.nworkers = workers or max(2, core.NCPU - 1)
        self.stride = stride
        self.simulate = simulate
        self.depth = depth
        self.tlc_workers = tlc_workers
        self.timeout = timeout
        self.max_tx = max_tx
        self.accept = accept
        self.seed = seed
        self.findings = []
        self.stats = {"replayed": 0, "truncated": 0, "calls": 0, "probes": 0, "exported": 0, "skipped": 0}
        self.per_action = {}
        self.samples = []
        self.errors = []
        self.refusals = {}
        self.res = None

    def run(self):
        ctx = mp.get_context("fork")
        rundir = tempfile.mkdtemp(prefix="nixverif-run-", dir=core.scratch_root())
        self.opts["rundir"] = rundir
        pool = ctx.Pool(self.nworkers, initializer=_worker_init, initargs=(self.opts,))
        sem = threading.Semaphore(self.nworkers * 4)
        lock = threading.Lock()
        batch = []

        def done(out):
            with lock:
                self.findings.extend(out["findings"])
                self.stats["replayed"] += out["n"]
                self.stats["truncated"] += out["truncated"]
                self.stats["calls"] += out["calls"]
                self.stats["probes"] += out["probes"]
                self.stats["steps"] = self.stats.get("steps", 0) + out.get("steps", 0)
                self.errors.extend(out["errors"])
                for rf in out["refusals"]:
                    self.refusals[rf] = self.refusals.get(rf, 0) + 1
            sem.release()

        def fail(exc):
            with lock:
                self.errors.append(repr(exc))
            sem.release()

        def flush():
            if batch:
                sem.acquire()
                pool.apply_async(_run_batch, (list(batch),), callback=done, error_callback=fail)
                del batch[:]

        walkstate = {"cands": [], "walk": [], "level": 0}
        budget = core.Budget()

        def finish_walk():
            w = walkstate["walk"]
            if walkstate["cands"]:
                w = w + [walkstate["cands"][0]]        # the last level: any candidate is a legal last step
            walkstate["cands"], walkstate["walk"] = [], []
            if len(w) >= 2 and budget.skip():
                self.stats["skipped_by_budget"] = self.stats.get("skipped_by_budget", 0) + 1
                return
            if len(w) >= 2:
                self.stats["walks"] = self.stats.get("walks", 0) + 1
                for st in w:
                    k = st["act"]["name"] + ":" + st["act"].get("out", "ok")
                    self.per_action[k] = self.per_action.get(k, 0) + 1
                if len(self.samples) < 2:
                    self.samples.append({"walk": [st["act"] for st in w]})
                batch.append({"walk": [{"act": st["act"], "from": st["from"], "to": st["to"], "obs": st.get("obs", [])}
                                       for st in w]})
                if len(batch) >= 4:
                    flush()

        def cb_sim(tx):
            # -simulate evaluates the export for every candidate successor of a level; the chosen one is the
            # candidate whose action re-appears as the last element of the next level's history
            if not (isinstance(tx, tuple) and tx and tx[0] == "TX"):
                return
            tx = tx[1]
            self.stats["exported"] += 1
            lvl = tx["hl"]
            if lvl < walkstate["level"] or (lvl == 0 and walkstate["walk"]):
                finish_walk()
            if lvl > walkstate["level"] or (walkstate["cands"] and lvl == walkstate["cands"][0]["hl"] + 1):
                chosen = [c for c in walkstate["cands"] if c["act"] == tx["last"]]
                if chosen:
                    walkstate["walk"].append(chosen[0])
                walkstate["cands"] = []
            walkstate["level"] = lvl
            walkstate["cands"].append(tx)

        def cb(tx):
            if self.simulate:
                return cb_sim(tx)
            if not (isinstance(tx, tuple) and tx and tx[0] == "TX"):
                return
            tx = tx[1]
            self.stats["exported"] += 1
            key = tx["act"]["name"] + ":" + tx["act"].get("out", "ok")
            self.per_action[key] = self.per_action.get(key, 0) + 1
            if self.accept is not None and not self.accept(tx):
                self.stats["skipped"] += 1
                return
            if self.stride > 1 and (self.stats["exported"] + self.seed) % self.stride:
                self.stats["skipped"] += 1
                return
            if self.max_tx and self.stats["exported"] - self.stats["skipped"] > self.max_tx:
                self.stats["skipped"] += 1
                return
            if budget.skip():
                self.stats["skipped"] += 1
                self.stats["skipped_by_budget"] = self.stats.get("skipped_by_budget", 0) + 1
                return
            if len(self.samples) < 3 and self.per_action[key] == 1 and len(tx["hist"]) >= 2:
                self.samples.append({"hist": tx["hist"], "act": tx["act"]})
            batch.append(tx)
            if len(batch) >= 40:
                flush()

        try:
            with core.Scratch("tlc") as tmp:
                self.res = core.run_tlc(self.module, self.cfg, tmp, workers=self.tlc_workers, export_cb=cb,
                                        timeout=self.timeout, coverage=False, simulate=self.simulate,
                                        depth=self.depth, seed=self.seed if self.simulate else None)
            if self.simulate:
                finish_walk()
            flush()
            pool.close()
            pool.join()
        finally:
            pool.terminate()
            shutil.rmtree(rundir, ignore_errors=True)
        if self.errors:
            raise core.MachineryError("replay workers failed (%d): %s" % (len(self.errors), self.errors[0]))
        if self.res.violation is None and self.res.rc != 0 and not self.simulate:
            raise core.MachineryError("TLC failed rc=%s: %s" % (self.res.rc, "\n".join(self.res.log_tail[-15:])))
        return self

    def coverage(self):
        r = self.res
        return {"config": self.cfg, "states": r.distinct, "generated": r.generated, "depth": r.depth,
                "transitions_exported": self.stats["exported"], "transitions_replayed": self.stats["replayed"],
                "truncated_by_earlier_divergence": self.stats["truncated"], "api_calls": self.stats["calls"],
                "probes": self.stats["probes"],
                "refusal_classes": {"%s/%s/%s -> %s" % k: v for k, v in sorted(self.refusals.items(), key=repr)},
                "per_action": dict(sorted(self.per_action.items())),
                "skipped_by_time_budget": self.stats.get("skipped_by_budget", 0),
                "tlc_wall_s": round(r.wall, 1)}


def replay_file(path):
    """./check <id> --replay <file>: re-executes one recorded transition against the current tree."""
    with open(path) as fh:
        rec = json.load(fh)
    rp = rec["replay"]
    if not rp or rp.get("engine") != "NixModel":
        print("replay file has no NixModel transition: %s" % path)
        return 2
    opts = dict(rp["opts"])
    opts["probes"] = tuple(opts.get("probes") or ())
    _worker_init(opts)
    try:
        tx = {"hist": rp["hist"], "act": rp["act"], "from": rp["from"], "to": rp["to"], "obs": rp.get("obs", [])}
        print("replaying %d history calls + %s (expected outcome %s), concretisation %s" % (
            len(tx["hist"]), tx["act"]["name"], tx["act"].get("out"), json.dumps(rp.get("conc"), ensure_ascii=False)[:300]))
        res = replay_one(tx)
        if res["truncated"] and not res["findings"]:
            print("the history prefix no longer reaches the recorded pre-state (diverges earlier)")
        for f in res["findings"]:
            print("MISMATCH stage=%s key=%s" % (f["stage"], key_of(f)))
            print("  " + json.dumps(f["detail"], default=repr, ensure_ascii=False)[:800])
        want = rec.get("key")
        hit = any(key_of(f) == want for f in res["findings"])
        print("recorded key %s: %s" % (want, "REPRODUCED" if hit else "not reproduced"))
        if hit:
            print("VIOLATION property=%s replay=%s" % (rec.get("property"), path))
        return 1 if hit else 0
    finally:
        _worker_exit(None)


def key_of(f):
    d = f["detail"]
    if f["stage"] == "outcome":
        obs = d["observed"].split(":")[0]
        return "%s/%s/%s/outcome:%s" % (f["action"], f["okind"], f["out"], obs.replace(" ", "_"))
    if f["stage"] == "handle":
        return "%s/%s/%s/stale_handle:%s" % (f["action"], f["okind"], f["out"], d.get("gpath", "?")[:80])
    if f["stage"] in ("state",) or f["stage"].startswith("reopen"):
        return "%s/%s/%s/%s:%s" % (f["action"], f["okind"], f["out"], f["stage"], d.get("gpath", d.get("raised", "?"))[:80])
    if f["stage"] == "search":
        return "search/%s/%s" % (d["what"], d.get("handle", "-"))
    if f["stage"] == "stamps":
        return "stamps/%s/%s/%s/auto_%s" % (d["kind"], d["attr"], d["what"], "on" if d.get("auto") else "off")
    if f["stage"] == "xcopy":
        return "xcopy/%s" % d["what"]
    if f["stage"] == "noise":
        return "noise/%s/%s" % (d["what"], d.get("call", "-"))
    if f["stage"] == "reopen-extras":
        return "reopen-extras/%s/%s" % (d["what"], re.sub(r"\[\d+\]", "[]", d.get("path", d.get("raised", "-")))[:80])
    if f["stage"] == "copy_returned":
        return "Copy/%s/returned_handle_is_not_the_copy/%s" % (f["okind"], "keep_id" if d.get("keep_id") else "fresh_id")
    if f["stage"] == "lookup":
        extra = ("/" + d["pool"]) if "pool" in d and d["what"].startswith(("by_name", "name_")) else ""
        return "lookup/%s/%s%s" % (d["container"], d["what"], extra)
    return "%s/%s/%s" % (f["stage"], f["action"], f["okind"])
