# -*- coding: utf-8 -*-
"""C01 - array data is stored and returned exactly (type, shape, values)."""
from . import core
from . import arrayreplay as ar


def assemble(prop, verdict, runs, owns, tlc_props, rule, assumptions, need):
    states = exported = replayed = truncated = calls = 0
    per_action, samples, cmds, models = {}, [], [], []
    foreign = 0
    for r in runs:
        r.run()
        if r.res.violation is not None:
            verdict.violation("tlc/%s/%s" % (r.cfg, r.res.violation[:90]), {"tlc": r.res.violation, "trace": r.res.error_trace[:60]})
        for f in r.findings:
            if owns(f):
                verdict.violation(ar.key_of(f), f["detail"], f["replay"])
            else:
                foreign += 1
                verdict.note("mismatch outside %s's facet: %s %s" % (prop, ar.key_of(f), str(f["detail"])[:160]),
                             cls="foreign/" + ar.key_of(f))
        states += r.res.distinct
        exported += r.stats["exported"]
        replayed += r.stats["replayed"]
        truncated += r.stats["truncated"]
        calls += r.stats["calls"]
        for k, v in r.per_action.items():
            per_action[k] = per_action.get(k, 0) + v
        samples.extend(r.samples[:2])
        cmds.append(r.res.cmd)
        models.append({"config": r.cfg, "states": r.res.distinct, "generated": r.res.generated,
                       "exported": r.stats["exported"], "replayed": r.stats["replayed"], "stride": r.stride})
    if replayed and truncated > 0.10 * replayed and not verdict.violations:
        # (with a violation on record the divergence is explained and reported; without one the harness verified nothing)
        raise core.MachineryError("vacuity: %d of %d replays truncated by an earlier divergence" % (truncated, replayed))
    for n in need:
        if not per_action.get(n):
            raise core.MachineryError("vacuity: %s never explored (%s)" % (n, sorted(per_action)))
    coverage = {"states": states, "transitions": exported, "traces_validated_against_impl": replayed - truncated,
                "samples": samples or [{"note": "none"}], "exhaustive": all(r.stride == 1 for r in runs),
                "evaluations": replayed, "distinct_nontrivial": replayed - truncated, "rule": rule,
                "api_calls": calls, "truncated_by_earlier_divergence": truncated, "foreign_facet_mismatches": foreign,
                "per_action": dict(sorted(per_action.items())), "models": models, "tlc_properties": tlc_props,
                "checker_cmd": " ;; ".join(cmds)}
    return "model_checking", coverage, assumptions


def run(tier, seed, verdict):
    quick = tier != "thorough"
    runs = [ar.ArrayRun("MC_C01_quick.cfg" if quick else "MC_C01.cfg", seed, "values", stride=3 if quick else 12)]
    return assemble(
        "C01", verdict, runs, lambda f: True,
        ["ShapeOK", "RefusedUnchanged", "AppendPreserves", "ResizePreserves", "AssignFrame"],
        "every history of create (with data / shape only) / whole write / region assignment / append along any axis / "
        "resize / refused variants within the bounds (ranks 1-4, zero-length axes) is replayed with a concretisation "
        "that picks one of 12 element types, a value pool with extremes, NaN, +-inf, -0.0, empty and non-ASCII text, a "
        "file x block x array compression triple and a creation variant; after every step shape, len, size, dtype, the "
        "stored dataset, whole read, read_direct, region and element reads, views and iteration are compared - through "
        "two long-lived handles and a fresh one - bit-exactly with the value each cell's stamp stands for, and again "
        "after close + reopen; the stored dataset's compression must follow array > block > file",
        ["values are compared by equality in the harness; the specification contributes which write each cell belongs to",
         "block-level compression through re-fetched block handles is not judged"],
        ("Create:ok", "WriteAll:ok", "Assign:ok", "Append:ok", "Resize:ok", "AppendBad:refused:ValueError",
         "Assign:refused:IndexError", "CreateMismatch:refused:ShapeMismatch"))


def replay(path):
    return ar.replay_file(path, "C01")
