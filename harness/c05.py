# -*- coding: utf-8 -*-
"""C05 - links are aliases of the original entity, never copies, and stay in their block."""
from . import modelreplay as mr
from .modelcheck import run_property


def run(tier, seed, verdict):
    quick = tier != "thorough"
    runs = [mr.ModelRun("MC_C05_quick.cfg" if quick else "MC_C05.cfg", seed, probes=("reopen",),
                        name_pools=[0, 1, 2], stride=8 if quick else 8)]
    return run_property(
        "C05", verdict, runs,
        require_actions=("LinkAppend:ok", "LinkAppend:refused:ForeignBlock", "LinkAppend:refused:WrongKind",
                         "SetRole:ok", "SetAttr:ok", "WriteData:ok"),
        tlc_props=["LinkKindAndBlock", "RoleKindOK", "NoDangling", "RefusedUnchanged"],
        also_own=lambda f: f["stage"].startswith("reopen") and f["action"] in ("LinkAppend", "SetRole"),
        rule="scripted prefix as C04 (second block re-uses the names of the first: same-name foreign entities), then "
             "every link append (right kind / wrong kind / other block), role assignment, attribute and data write; "
             "every entity is read back through every path that reaches it (primary container, each link list, each "
             "role link) - the projection contains id, name, type, definition and data as seen through each link; "
             "handles are a seeded mix of long-lived ones and fresh lookups",
        assumptions=["LinkContainer.extend with a valid prefix before an invalid item is left open",
                     "dimension links are covered by the NixArray-side check once available (not here)"])


def replay(path):
    return mr.replay_file(path)
