# -*- coding: utf-8 -*-
"""C05 - links are aliases of the original entity, never copies, and stay in their block."""
import json

from . import core
from . import dimlink
from . import modelreplay as mr
from . import runner
from .modelcheck import run_property

RANKS = {"t1": 1, "t2": 2}


def run(tier, seed, verdict):
    quick = tier != "thorough"
    runs = [mr.ModelRun("MC_C05_q1.cfg" if quick else "MC_C05_quick.cfg", seed, probes=("reopen",),
                        name_pools=[0, 1, 2], stride=1 if quick else 2),
            mr.ModelRun("MC_C02_relink4.cfg", seed + 2, probes=("reopen",), name_pools=[0, 1], stride=2 if quick else 1),
            mr.ModelRun("MC_SimSmall.cfg", seed + 3, probes=("reopen",), name_pools=[0, 1, 2],
                        simulate="num=%d" % (40 if quick else 200), depth=32),
            mr.ModelRun("MC_SimLinks.cfg", seed + 4, probes=("reopen",), name_pools=[0, 2],
                        simulate="num=%d" % (12 if quick else 150), depth=34)]
    level, cov, assumptions = run_property(
        "C05", verdict, runs,
        require_actions=("LinkAppend:ok", "LinkAppend:refused:ForeignBlock", "LinkAppend:refused:WrongKind",
                         "SetRole:ok", "SetAttr:ok", "WriteData:ok"),
        tlc_props=["LinkKindAndBlock", "RoleKindOK", "NoDangling", "RefusedUnchanged"],
        also_own=lambda f: f["stage"].startswith("reopen") and f["action"] in ("LinkAppend", "SetRole"),
        rule="scripted prefix as C04 (second block re-uses the names of the first: same-name foreign entities), then "
             "every link append (right kind / wrong kind / other block), role assignment, attribute and data write; "
             "every entity is read back through every path that reaches it (primary container, each link list, each "
             "role link) - the projection contains id, name, type, definition and data as seen through each link; "
             "handles are a seeded mix of long-lived ones and fresh lookups",
        assumptions=["LinkContainer.extend with a valid prefix before an invalid item is left open",
                     "dimension links: targets of rank 1 and 2 (every legal index specification), data-frame targets "
                     "and what a link reports after its target was deleted are left open"])
    # second sentence of the property: dimensions linked to arrays (NixDimLink.tla)
    drun = runner.ExportRun("MC_NixDimLink", "MC_C05_dims_quick.cfg" if quick else "MC_C05_dims.cfg", seed, "harness.dimlink",
                            opts={"ranks": RANKS}, stride=8 if quick else 6,
                            label=lambda tx: dimlink.klass(tx["act"]) + ":" + tx["act"]["out"]).run()
    # ... and to columns of a data frame (index = column, unit = the column's unit, label = the column's name)
    frun = runner.ExportRun("MC_NixDimLink", "MC_C05_dims_frame.cfg", seed + 1, "harness.dimlink",
                            opts={"ranks": {"t1": 1, "fr": 0}}, stride=4 if quick else 1,
                            label=lambda tx: dimlink.klass(tx["act"]) + ":" + tx["act"]["out"]).run()
    drun.findings.extend(frun.findings)
    cov["models"].append(frun.model_summary())
    cov["states"] += frun.res.distinct
    cov["transitions"] += frun.stats["exported"]
    cov["evaluations"] += frun.stats["replayed"]
    cov["traces_validated_against_impl"] += frun.stats["replayed"] - frun.counters.get("truncated", 0)
    cov["distinct_nontrivial"] += frun.stats["replayed"] - frun.counters.get("truncated", 0)
    if frun.res.violation is not None:
        verdict.violation("tlc/NixDimLink(frame)/" + frun.res.violation[:80], {"tlc": frun.res.violation})
    if drun.res.violation is not None:
        verdict.violation("tlc/NixDimLink/" + drun.res.violation[:80], {"tlc": drun.res.violation, "trace": drun.res.error_trace[:40]})
    foreign = 0
    for f in drun.findings:
        if f["owner"] == "C05":
            verdict.violation(f["key"], f["detail"], f["replay"])
        else:
            foreign += 1
            verdict.note("mismatch in a facet owned by %s: %s %s" % (f["owner"], f["key"], str(f["detail"])[:160]),
                         cls="foreign/%s/%s" % (f["owner"], f["key"]))
    for need in ("Link/range:ok", "Link/set:ok", "Link/range:refused:BadIndex", "Link/sampled:refused:Unsupported",
                 "SetOwn/range:ok", "SetOwn/set:refused:Linked", "WriteTarget/data:ok", "SetAttr/range/un/linked:ok", "Unlink:ok"):
        if not drun.per_action.get(need):
            raise core.MachineryError("vacuity (NixDimLink): %s never explored (%s)" % (need, sorted(drun.per_action)))
    cov["states"] += drun.res.distinct
    cov["transitions"] += drun.stats["exported"]
    cov["traces_validated_against_impl"] += drun.stats["replayed"] - drun.counters.get("truncated", 0)
    cov["evaluations"] += drun.stats["replayed"]
    cov["distinct_nontrivial"] += drun.stats["replayed"] - drun.counters.get("truncated", 0)
    cov["models"].append(drun.model_summary())
    cov["dimension_links"] = {"per_action": dict(sorted(drun.per_action.items())), "counters": drun.counters,
                              "foreign_facet_mismatches": foreign,
                              "tlc_properties": ["TicksXorLink", "LinkOK", "RefusedUnchanged", "AliasReports", "DimFrame"]}
    cov["samples"].extend(drun.samples[:1])
    cov["checker_cmd"] += " ;; " + drun.res.cmd
    # Binding B (code -> specification): recorded random executions over a larger universe (four targets incl. a data
    # frame, four descriptors, three tokens) validated by TLC against NixDimLinkTrace.tla
    from . import tracedim
    tinfo = tracedim.run_binding_b(seed, 25 if quick else 200, 60, verdict)
    cov["binding_b_dimension_links"] = tinfo
    cov["traces_validated_against_impl"] += tinfo["traces"] if tinfo.get("accepted") else 0
    cov["rule"] += "; dimension links (NixDimLink): every history of appending sampled / range / set descriptors, setting "\
                   "explicit ticks / labels, label and unit (own or through the link), linking to rank-1 and rank-2 targets "\
                   "with every legal and illegal index specification, unlinking, changing the target's data / unit / label "\
                   "through its own handle, deleting the descriptors; every descriptor is read through long-lived "\
                   "descriptor handles kept across calls, two host handles and fresh ones, and after reopening"
    return level, cov, assumptions


def replay(path):
    with open(path) as fh:
        rec = json.load(fh)
    if isinstance(rec.get("replay"), dict) and rec["replay"].get("engine") == "NixDimLink":
        return dimlink.replay_record(rec, "C05")
    return mr.replay_file(path)
