# -*- coding: utf-8 -*-
"""
Binding for NixSession.tla composed with NixModel.tla (C11 read-only sessions, C17 kill after flush/close).

A NixModel transition exported by TLC (history h1..hn + action a) supplies the *writes*; a NixSession behaviour
exported by TLC (Open rw/ro, Write, Attempt, Flush, Close, Kill) supplies the *schedule*: Write i is the i-th call of
the history, write n+1 and the read-only Attempt are the transition's own action.  Every session (Open ... Close/Kill)
runs in a forked child process, which records the projection of the file at each flush()/close() and is SIGKILLed
where the schedule says Kill; the parent then opens the file read-only and read-write and compares the projection with
what the specification says is durable (disk = writes applied at the last flush/close).
"""
import hashlib
import json
import os
import random
import signal
import zlib

from . import core
from . import nixmodel as nm

_W = {}


# ---------------------------------------------------------------------------
# schedules from NixSession.tla

def schedules_for(n, tmp, depth=None):
    """All maximal behaviours TLC exports for NWrites = n (one history per abstract state, every transition)."""
    cfgpath = os.path.join(tmp, "MC_Session_gen_%d.cfg" % n)
    with open(cfgpath, "w") as fh:
        fh.write("SPECIFICATION Spec\nCONSTANTS\n  NWrites = %d\n  MaxDepth = %d\n  MaxKills = 2\nVIEW View\n"
                 "INVARIANT TypeOK\nINVARIANT ReadOnlySeesDisk\nPROPERTY ReadOnlyNeverChanges\n"
                 "PROPERTY KillAfterFlushLosesNothing\nPROPERTY OpenShowsDisk\nPROPERTY DiskMonotone\nPROPERTY CloseMakesDurable\n"
                 "ACTION_CONSTRAINT Export\nCHECK_DEADLOCK FALSE\n" % (n, depth or (7 + 2 * n)))
    seqs = []

    def cb(tx):
        if isinstance(tx, tuple) and tx and tx[0] == "TX":
            seqs.append(tx[1]["hist"] + [tx[1]["act"]])
    res = core.run_tlc("NixSession", cfgpath, tmp, workers=1, export_cb=cb, timeout=600, coverage=False)
    if res.violation is not None or res.rc != 0:
        raise core.MachineryError("NixSession (NWrites=%d): %s %s" % (n, res.violation, "\n".join(res.log_tail[-8:])))
    keys = set(json.dumps(s) for s in seqs)
    prefixes = set()
    for s in seqs:
        for k in range(1, len(s)):
            prefixes.add(json.dumps(s[:k]))
    maximal = [json.loads(k) for k in sorted(keys - prefixes)]
    return maximal, res


# ---------------------------------------------------------------------------
# a session resumed in another process

class Resumed(nm.Session):
    def __init__(self, nixio, path, conc, mode, side, how_seed):  # noqa (does not call the base constructor)
        self.nixio, self.path, self.conc = nixio, path, conc
        self.reg = nm.Registry()
        self.clock = side["clock"]
        self.auto = side["auto"]
        self.rnd = random.Random(how_seed)
        self.handles, self.handles_b = {}, {}
        self.meta = {int(k): tuple(v) for k, v in side["meta"].items()}
        self.uuid = {int(k): v for k, v in side["uuid"].items()}
        for num, u in self.uuid.items():
            self.reg.bind(u, "e%d" % num)
        self._install_clock()
        if self.rnd.random() < 0.5:
            self.nf = nixio.File.open(path, mode, auto_update_timestamps=self.auto)
        else:
            self.nf = nixio.File.open(path, mode)
            self.nf.auto_update_timestamps = self.auto
        self.log = []

    def export(self, side):
        side["meta"] = {str(k): list(v) for k, v in self.meta.items()}
        side["uuid"] = {str(k): v for k, v in (self.uuid or {}).items()}
        side["clock"], side["auto"] = self.clock, self.auto


def sha(path):
    h = hashlib.sha256()
    with open(path, "rb") as fh:
        for chunk in iter(lambda: fh.read(1 << 20), b""):
            h.update(chunk)
    return h.hexdigest()


def _persist(sidepath, side):
    tmp = sidepath + ".tmp"
    with open(tmp, "w") as fh:
        json.dump(side, fh)
        fh.flush()
        os.fsync(fh.fileno())
    os.replace(tmp, sidepath)


def _child(nixio, path, sidepath, conc, mode, segment, writes, final_act, nwrites, exp_from, exp_to, how_seed):
    """Runs one session in the child process; never returns."""
    with open(sidepath) as fh:
        side = json.load(fh)
    events = side.setdefault("events", [])
    code = 0
    try:
        sess = Resumed(nixio, path, conc, nixio.FileMode.ReadOnly if mode == "ro" else nixio.FileMode.ReadWrite,
                       side, how_seed)
        got = nm.project(sess.nf, sess.reg)
        d = nm.diff(side["durable"], got)
        if d:
            events.append({"what": "open_shows_other_state", "mode": mode, "path": d[0][0], "expected": d[0][1],
                           "observed": d[0][2]})
        mem = side["mem"]

        def spec_check(where):
            # tie the durable state to the NixModel state where the specification knows it
            if side["diverged"]:
                return
            want = exp_from if mem == nwrites else (exp_to if mem == nwrites + 1 else None)
            if want is not None:
                dd = nm.diff(want, side["durable"])
                if dd:
                    events.append({"what": "state_differs_from_model", "at": where, "path": dd[0][0],
                                   "expected": dd[0][1], "observed": dd[0][2]})

        for a in segment:
            nme = a["name"]
            if nme == "Write":
                call = writes[a["i"] - 1] if a["i"] <= nwrites else final_act
                out = sess.apply(call)
                side["calls"] += 1
                if out.ok != (call["out"] == "ok"):
                    side["diverged"] = True      # an earlier transition's business; nothing after it is tied to the model
                mem += 1
                if getattr(sess, "older", None) is not None:
                    side["since_second"] = side.get("since_second", 0) + 1
            elif nme == "Attempt":
                before = nm.project(sess.nf, sess.reg)
                out = sess.apply(final_act)
                side["attempts"] += 1
                events.append({"what": "attempt", "raised": None if out.ok else out.cls,
                               "call": final_act["name"]})
                after = nm.project(sess.nf, sess.reg)
                d = nm.diff(before, after)
                if d:
                    events.append({"what": "readonly_session_sees_change", "path": d[0][0], "expected": d[0][1],
                                   "observed": d[0][2]})
            elif nme == "Flush":
                if getattr(sess, "older", None) is not None:
                    sess.older.flush()
                sess.nf.flush()
                side["since_second"] = 0
                side["durable"] = nm.project(sess.nf, sess.reg)
                side["mem"] = mem
                sess.export(side)
                spec_check("flush")
                _persist(sidepath, side)
            elif nme == "OpenSecond":
                # a second File object on the same path; the session goes on through it (fresh handles)
                older = sess.nf
                sess.nf = nixio.File.open(path, nixio.FileMode.ReadWrite)
                sess.nf.auto_update_timestamps = sess.auto
                sess.handles, sess.handles_b = {}, {}
                sess.older = older
                side["since_second"] = 0
            elif nme == "CloseFirst":
                if side.get("since_second", 0) == 0:
                    # nothing was written through the second object: closing the first makes everything durable
                    side["durable"] = nm.project(sess.nf, sess.reg)
                    side["mem"] = mem
                    spec_check("close_first")
                sess.export(side)
                sess.older.close()
                sess.older = None
                side["second_handles"] = side.get("second_handles", 0) + 1
                _persist(sidepath, side)
            elif nme == "Close":
                if mode == "rw":
                    side["durable"] = nm.project(sess.nf, sess.reg)
                    side["mem"] = mem
                    spec_check("close")
                sess.export(side)
                sess.nf.close()
                _persist(sidepath, side)
            elif nme == "Kill":
                _persist(sidepath, side)
                os.kill(os.getpid(), signal.SIGKILL)
        if segment and segment[-1]["name"] not in ("Close", "Kill"):
            # schedule ended inside a session: leave like a kill without promise - nothing to verify
            _persist(sidepath, side)
    except BaseException as exc:  # noqa
        import traceback
        side.setdefault("errors", []).append(traceback.format_exc()[-1200:])
        try:
            _persist(sidepath, side)
        except Exception:  # noqa
            pass
        code = 3
    os._exit(code)


def run_schedule(nixio, path, sidepath, conc, schedule, tx, how_seed, res, finding):
    """Executes one NixSession behaviour over the writes of one NixModel transition."""
    writes, final_act = tx["hist"], tx["act"]
    n = len(writes)
    exp_from = nm.expected(tx["from"], conc)
    exp_to = exp_from if tx["to"].get("same") else nm.expected(tx["to"], conc)
    # the empty file exists before the first session
    sess0 = nm.Session(nixio, path, conc, how_seed=how_seed)
    side = {"meta": {}, "uuid": {}, "clock": 1, "auto": True, "mem": 0, "calls": 0, "attempts": 0,
            "diverged": False, "events": [], "durable": nm.project(sess0.nf, sess0.reg)}
    sess0.close()
    _persist(sidepath, side)
    # split into sessions
    sessions, cur = [], None
    for a in schedule:
        if a["name"] == "Open":
            cur = {"mode": a["m"], "acts": []}
            sessions.append(cur)
        elif cur is not None:
            cur["acts"].append(a)
    must_fail = (final_act["out"] == "ok" and not tx["to"].get("same"))
    for si, s in enumerate(sessions):
        before = sha(path) if s["mode"] == "ro" else None
        pid = os.fork()
        if pid == 0:
            _child(nixio, path, sidepath, conc, s["mode"], s["acts"], writes, final_act, n, exp_from, exp_to,
                   how_seed + si)
        _, status = os.waitpid(pid, 0)
        res["sessions"] += 1
        with open(sidepath) as fh:
            side = json.load(fh)
        killed = os.WIFSIGNALED(status)
        ended = s["acts"][-1]["name"] if s["acts"] else "none"
        res["second_closes"] += sum(1 for a in s["acts"] if a["name"] == "CloseFirst")
        if side.get("errors"):
            raise core.MachineryError("session child failed: %s" % side["errors"][0])
        if ended == "Kill" and not killed:
            raise core.MachineryError("child was not killed")
        for ev in side["events"]:
            if ev["what"] == "attempt":
                res["attempts"] += 1
                if must_fail and ev["raised"] is None:
                    finding("C11", "readonly/mutator_accepted/%s" % ev["call"], {"call": final_act, "session": s})
            elif ev["what"] == "readonly_session_sees_change":
                finding("C11", "readonly/session_state_changed", ev)
            elif ev["what"] == "open_shows_other_state":
                finding("C11" if ev["mode"] == "ro" else "C02", "open_%s/shows_other_state" % ev["mode"], ev)
            elif ev["what"] == "state_differs_from_model":
                finding("C02", "durable_state_differs_from_model/%s" % ev["at"], ev)
        side["events"] = []
        _persist(sidepath, side)
        if before is not None:
            res["ro_sessions"] += 1
            if sha(path) != before:
                finding("C11", "readonly/bytes_changed/ended_by_%s" % ended, {"session": s})
        if ended == "Kill":
            res["kills"] += 1
            if not s["acts"][-1]["clean"]:
                res["dirty_kills"] += 1
                return        # nothing is promised after a kill with unflushed writes
        if ended not in ("Close", "Kill"):
            return
        # what the specification says is durable must be what both open modes show
        how = "kill_after_" + ("open" if len(s["acts"]) == 1 else s["acts"][-2]["name"].lower()) if ended == "Kill" else "close"
        for mode, label in ((nixio.FileMode.ReadOnly, "ro"), (nixio.FileMode.ReadWrite, "rw")):
            try:
                vs = Resumed(nixio, path, conc, mode, side, how_seed)
            except Exception as exc:  # noqa
                finding("C17" if ended == "Kill" else "C02", "%s/reopen_%s_raises" % (how, label), {"raised": repr(exc)[:200]})
                return
            try:
                got = nm.project(vs.nf, vs.reg)
            finally:
                vs.close()
            res["verifications"] += 1
            d = nm.diff(side["durable"], got)
            if d:
                finding("C17" if ended == "Kill" else "C02", "%s/reopen_%s/%s" % (how, label, generic(d[0][0])),
                        {"path": d[0][0], "expected": d[0][1], "observed": d[0][2], "session": s})
                return
    res["calls"] += side["calls"]
    if side["diverged"]:
        res["truncated"] = 1


def generic(path):
    import re
    return re.sub(r"\[\d+\]", "[]", path)


# ---------------------------------------------------------------------------
# runner worker interface (NixModel transitions in, findings out)

def init(opts):
    _W["opts"] = opts
    _W["nixio"] = core.import_nixio()
    _W["dir"] = os.path.join(opts["rundir"], "s%d" % os.getpid())
    os.makedirs(_W["dir"], exist_ok=True)
    with open(opts["schedules_file"]) as fh:
        _W["sched"] = {int(k): v for k, v in json.load(fh).items()}
    _W["n"] = 0
    os.environ["TZ"] = "XXX-5:30"
    import time
    time.tzset()


def replay_one(tx):
    opts = _W["opts"]
    nixio = _W["nixio"]
    _W["n"] += 1
    n = len(tx["hist"])
    scheds = _W["sched"].get(n)
    res = {"findings": [], "truncated": 0, "calls": 0, "sessions": 0, "ro_sessions": 0, "kills": 0, "dirty_kills": 0,
           "attempts": 0, "verifications": 0, "schedules": 0, "second_closes": 0}
    if not scheds:
        return res
    h = zlib.crc32(json.dumps(tx["act"], sort_keys=True).encode()) + 31 * n
    seed = (opts["seed"] * 1000003 + h) % (2 ** 31)
    conc = nm.Conc(seed, name_pool=opts["name_pools"][seed % len(opts["name_pools"])])
    schedule = scheds[(seed // 7 + _W["n"]) % len(scheds)]
    if opts.get("want") == "kill" and _W["n"] % 4 == 0:
        # a quarter of the kill schedules: the kill that follows close() of one of two File objects
        cf = [s_ for s_ in scheds if any(s_[i]["name"] == "CloseFirst" and s_[i + 1]["name"] == "Kill" for i in range(len(s_) - 1))]
        if cf:
            schedule = cf[(seed // 7) % len(cf)]
    path = os.path.join(_W["dir"], "f%d.nix" % (_W["n"] % 3))
    sidepath = path + ".side.json"
    act = tx["act"]

    def finding(owner, key, detail):
        res["findings"].append({"owner": owner, "key": "%s/%s" % (key, act["name"]) if owner == "C11" and "mutator" in key else key,
                                "detail": detail,
                                "replay": {"engine": "NixSession x NixModel", "hist": tx["hist"], "act": act,
                                           "from": tx["from"], "to": tx["to"], "schedule": schedule,
                                           "conc": conc.describe(), "seed": seed, "name_pools": opts["name_pools"]}})
    res["schedules"] = 1
    run_schedule(nixio, path, sidepath, conc, schedule, tx, seed, res, finding)
    return res


def replay_record(rec, prop):
    rp = rec["replay"]
    nixio = core.import_nixio()
    res = {"findings": [], "truncated": 0, "calls": 0, "sessions": 0, "ro_sessions": 0, "kills": 0, "dirty_kills": 0,
           "attempts": 0, "verifications": 0, "schedules": 1, "second_closes": 0}
    conc = nm.Conc(rp["seed"], name_pool=rp["name_pools"][rp["seed"] % len(rp["name_pools"])])
    tx = {"hist": rp["hist"], "act": rp["act"], "from": rp["from"], "to": rp["to"]}
    hits = []

    def finding(owner, key, detail):
        key = "%s/%s" % (key, rp["act"]["name"]) if owner == "C11" and "mutator" in key else key
        print("MISMATCH owner=%s key=%s\n  %s" % (owner, key, json.dumps(detail, default=repr)[:800]))
        hits.append(key)
    with core.Scratch("sessr") as tmp:
        path = os.path.join(tmp, "f.nix")
        run_schedule(nixio, path, path + ".side.json", conc, rp["schedule"], tx, rp["seed"], res, finding)
    hit = rec["key"] in hits
    print("schedule: %s" % " ".join(a["name"] + (":" + a["m"] if "m" in a else "") for a in rp["schedule"]))
    print("recorded key %s: %s" % (rec["key"], "REPRODUCED" if hit else "not reproduced"))
    if hit:
        print("VIOLATION property=%s replay=<file>" % prop)
    return 1 if hit else 0
