# -*- coding: utf-8 -*-
"""
C03 - names unique per parent, ids unique and stable, all lookups agree.

NixModel / MC_C03*: every create/delete history over all containers within the bounds; TLC checks NameUnique,
EidUnique, IdNameStable, NumbersNeverReused, DeleteFrame; every exported transition is replayed and, on the state
reached, every container is probed through every lookup path - in the session and again after reopening.
"""
from . import core
from . import modelreplay as mr

OWN_ACTIONS = ("Create", "CreateMTag", "CreateFeature", "CreateProperty", "Delete")


def run(tier, seed, verdict):
    quick = tier != "thorough"
    run_ = mr.ModelRun("MC_C03_quick.cfg" if quick else "MC_C03.cfg", seed,
                       probes=("lookups", "reopen", "lookups"), name_pools=[0, 1, 2, 3, 4, 5],
                       stride=3 if quick else 1).run()
    tlc = run_.res
    if tlc.violation is not None:
        verdict.violation("tlc/" + tlc.violation[:80], {"tlc": tlc.violation, "trace": tlc.error_trace[:60]})
    foreign = 0
    for f in run_.findings:
        own = (f["stage"] in ("lookup", "ids", "init")
               or (f["action"] in OWN_ACTIONS and f["out"] in ("ok", "refused:DuplicateName") and f["facet"] == "content"))
        if own:
            verdict.violation(mr.key_of(f), f["detail"], f["replay"])
        else:
            foreign += 1
            verdict.note("mismatch outside C03's facet: %s %s" % (mr.key_of(f), str(f["detail"])[:200]),
                         cls="foreign/" + mr.key_of(f))
    for (action, kind, why, cls), n in run_.refusals.items():
        if why == "refused:DuplicateName" and cls != "DuplicateName":
            verdict.violation("duplicate_name_error_class/%s/%s" % (kind, cls),
                              {"expected": "DuplicateName", "observed": cls, "count": n})
    cov = run_.coverage()
    if not run_.per_action.get("Create:refused:DuplicateName") or not run_.per_action.get("Delete:ok"):
        raise core.MachineryError("vacuity: no duplicate-name refusals or no deletes explored")
    coverage = {
        "states": tlc.distinct, "transitions": run_.stats["exported"],
        "traces_validated_against_impl": run_.stats["replayed"] - run_.stats["truncated"],
        "samples": run_.samples or [{"note": "no sample"}], "exhaustive": run_.stride == 1,
        "evaluations": run_.stats["replayed"], "distinct_nontrivial": run_.stats["replayed"] - run_.stats["truncated"],
        "rule": "every transition of the bounded create/delete state graph is one replay from an empty file; the "
                "lookup probe runs on every reached state in the session and after reopen; name pools: ascii, "
                "reversed sort order, non-ASCII, 1000-character, dots/backslash, UUID-looking",
        "foreign_facet_mismatches": foreign, "model": cov,
        "tlc_properties": ["TypeOK", "NameUnique", "EidUnique", "NoDangling", "RefusedUnchanged", "IdNameStable",
                           "NumbersNeverReused", "DeleteFrame"],
        "checker_cmd": tlc.cmd,
    }
    assumptions = ["names: non-empty, no '/', not '.', no NUL; empty names at file level are auto-named by the library "
                   "(a documented default), hence not treated as refusals",
                   "bounds of the TLC configuration (see model.config); concretisation pools are sampled by seed"]
    return "model_checking", coverage, assumptions


def replay(path):
    return mr.replay_file(path)
