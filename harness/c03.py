# -*- coding: utf-8 -*-
"""
C03 - names unique per parent, ids unique and stable, all lookups agree.

NixModel / MC_C03*: every create/delete history over all containers within the bounds; TLC checks NameUnique,
EidUnique, IdNameStable, NumbersNeverReused, DeleteFrame; every exported transition is replayed and, on the state
reached, every container is probed through every lookup path - in the session and again after reopening.
"""
from . import core
from . import modelreplay as mr

OWN_ACTIONS = ("Create", "CreateMTag", "CreateFeature", "CreateProperty", "Delete")


def run(tier, seed, verdict):
    quick = tier != "thorough"
    # (thorough: the same bounded graph without stride, and five times the walks; MC_C03.cfg - one object more - does
    # not finish within the TLC time limit when every transition is replayed with four probes)
    run_ = mr.ModelRun("MC_C03_quick.cfg", seed,
                       probes=("dead_ids", "lookups", "reopen", "lookups"), name_pools=[0, 1, 2, 3, 4, 5],
                       stride=3 if quick else 1).run()
    tlc = run_.res
    if tlc.violation is not None:
        verdict.violation("tlc/" + tlc.violation[:80], {"tlc": tlc.violation, "trace": tlc.error_trace[:60]})
    # random walks over create / delete churn (TLC -simulate): names re-used after deletion many times in one session
    sim = mr.ModelRun("MC_SimChurn.cfg", seed + 1, probes=("dead_ids", "lookups", "reopen", "lookups"),
                      name_pools=[0, 1, 2, 3, 4, 5], simulate="num=%d" % (60 if quick else 300), depth=32).run()
    # link lists over a source tree whose levels re-use names: by-name lookups must find the linked entity
    shadow = mr.ModelRun("MC_C03_shadow.cfg", seed + 2, probes=("lookups", "reopen", "lookups"), name_pools=[0, 1, 2],
                         stride=1, accept=lambda tx: tx["act"]["name"] in ("LinkAppend", "LinkRemove")).run()
    if not shadow.stats["replayed"]:
        raise core.MachineryError("vacuity: no transition of the shadowed-names configuration replayed")
    foreign = 0
    for f in run_.findings + sim.findings + shadow.findings:
        own = (f["stage"] in ("lookup", "ids", "init")
               or (f["stage"] == "handle" and "@pos" in f["detail"].get("gpath", ""))
               or (f["action"] in OWN_ACTIONS and f["out"] in ("ok", "refused:DuplicateName") and f["facet"] == "content"))
        if own:
            verdict.violation(mr.key_of(f), f["detail"], f["replay"])
        else:
            foreign += 1
            verdict.note("mismatch outside C03's facet: %s %s" % (mr.key_of(f), str(f["detail"])[:200]),
                         cls="foreign/" + mr.key_of(f))
    for (action, kind, why, cls), n in run_.refusals.items():
        if why == "refused:DuplicateName" and cls != "DuplicateName":
            verdict.violation("duplicate_name_error_class/%s/%s" % (kind, cls),
                              {"expected": "DuplicateName", "observed": cls, "count": n})
    cov = run_.coverage()
    if not run_.per_action.get("Create:refused:DuplicateName") or not run_.per_action.get("Delete:ok"):
        raise core.MachineryError("vacuity: no duplicate-name refusals or no deletes explored")
    coverage = {
        "states": tlc.distinct, "transitions": run_.stats["exported"],
        "traces_validated_against_impl": run_.stats["replayed"] - run_.stats["truncated"] + sim.stats.get("walks", 0)
                                         + shadow.stats["replayed"] - shadow.stats["truncated"],
        "shadowed_names": {"config": "MC_C03_shadow.cfg", "replayed": shadow.stats["replayed"],
                           "per_action": dict(sorted(shadow.per_action.items()))},
        "samples": run_.samples or [{"note": "no sample"}], "exhaustive": run_.stride == 1,
        "evaluations": run_.stats["replayed"], "distinct_nontrivial": run_.stats["replayed"] - run_.stats["truncated"],
        "rule": "every transition of the bounded create/delete state graph is one replay from an empty file; the "
                "lookup probe runs on every reached state in the session and after reopen; in addition TLC -simulate walks of 24 "
                "create / delete calls (names re-used after deletion) are replayed in one session with the ids of deleted "
                "entities probed after every call through every long-lived handle; name pools: ascii, "
                "reversed sort order, non-ASCII, 1000-character, dots/backslash, UUID-looking",
        "foreign_facet_mismatches": foreign, "model": cov,
        "simulation": {"config": "MC_SimChurn.cfg", "walks": sim.stats.get("walks", 0), "steps": sim.stats.get("steps", 0),
                       "per_action": dict(sorted(sim.per_action.items()))},
        "tlc_properties": ["TypeOK", "NameUnique", "EidUnique", "NoDangling", "RefusedUnchanged", "IdNameStable",
                           "NumbersNeverReused", "DeleteFrame"],
        "checker_cmd": tlc.cmd,
    }
    assumptions = ["names: non-empty, no '/', not '.', no NUL; empty names at file level are auto-named by the library "
                   "(a documented default), hence not treated as refusals",
                   "bounds of the TLC configuration (see model.config); concretisation pools are sampled by seed"]
    return "model_checking", coverage, assumptions


def replay(path):
    return mr.replay_file(path)
