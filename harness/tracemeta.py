# -*- coding: utf-8 -*-
"""
Binding B for NixMeta (code -> specification): a seeded random driver exercises Section / Property over a universe
larger than the one TLC enumerates and records one ndjson line per call (after it returned or raised): the API call
with abstract arguments, the outcome class, and the complete projected state in the specification's own
representation (value tokens recovered by the inverse concretisation).  NixMetaTrace.tla then has to explain every
line with the NixMeta action the call maps to.  A rejected log names the first unexplained line.
"""
import json
import os
import random
import re

import numpy as np

from . import core
from . import c10

NAMES = {"n1": "alpha", "n2": "beta", "n3": "Größe", "n4": "0123456789abcdef0123456789abcdef", "n5": "名前", "n6": "x" * 120}
VALUES = {"bool": (True, False), "int": (2 ** 63 - 1, 0), "float": (float("nan"), -0.0), "text": ("", "ünï çødé")}
TYPES = ["bool", "int", "float", "text"]


def token_of(v):
    c = c10.canon(v)
    for t, pair in VALUES.items():
        for k, pv in enumerate(pair):
            if c10.canon(pv) == c:
                return [t, k + 1]
    return ["?", repr(v)[:40]]


def project(sec):
    inv = {v: k for k, v in NAMES.items()}
    props = []
    for p in sec.props:
        props.append({"name": inv.get(p.name, "?" + p.name[:20]), "dtype": c10.dtype_class(p.data_type),
                      "vals": [token_of(v) for v in p.values], "attr": []})
    return {"props": props, "subs": [inv.get(s.name, "?" + s.name[:20]) for s in sec.sections]}


def conc(cand):
    return [VALUES[t][k - 1] for t, k in cand]


def rand_cand(rnd, typ=None, mixed=False, maxlen=4):
    n = rnd.randint(1, maxlen)
    if mixed:
        n = max(n, 2)
        ts = [rnd.choice(TYPES) for _ in range(n)]
        if len(set(ts)) == 1:
            ts[-1] = TYPES[(TYPES.index(ts[0]) + 1) % 4]
    else:
        t = typ or rnd.choice(TYPES)
        ts = [t] * n
    return [[t, rnd.randint(1, 2)] for t in ts]


def record(nixio, path, seed, ntraces, nevents, out):
    """Runs ntraces random sessions of nevents calls each; appends ndjson lines to the open file `out`."""
    rnd = random.Random(seed)
    lines = 0
    DT = nixio.DataType
    dtmap = {"bool": DT.Bool, "int": DT.Int64, "float": DT.Double, "text": DT.String}
    for tid in range(ntraces):
        nf = nixio.File.open(path, nixio.FileMode.Overwrite)
        sec = nf.create_section("root", "t")
        other = nf.sections["root"]          # a second long-lived handle: reads alternate between the two
        out.write(json.dumps({"tid": tid, "act": {"call": "reset", "out": "ok"}, "state": {"props": [], "subs": []}}) + "\n")
        lines += 1
        for ev in range(nevents):
            h = sec if rnd.random() < 0.5 else other
            have = [p.name for p in sec.props]
            inv = {v: k for k, v in NAMES.items()}
            have_tok = [inv[n] for n in have]
            ntok = rnd.choice(sorted(NAMES))
            fault = rnd.random() < 0.25
            call = rnd.choice(["create_property", "create_property", "create_typed", "dict_set", "set_values", "extend_values",
                               "extend_values", "clear_values", "delete_property", "create_section", "delete_section",
                               "create_empty"])
            act = {"call": call, "n": ntok}
            exc = None
            try:
                if call == "create_property":
                    act["c"] = rand_cand(rnd, mixed=fault)
                    h.create_property(NAMES[ntok], conc(act["c"]))
                elif call == "create_typed":
                    if ntok in have_tok:
                        continue
                    act["t"] = rnd.choice(TYPES)
                    h.create_property(NAMES[ntok], dtmap[act["t"]])
                elif call == "create_empty":
                    if ntok in have_tok:
                        continue
                    h.create_property(NAMES[ntok], [])
                elif call == "dict_set":
                    typ = None
                    if ntok in have_tok and not fault:
                        typ = c10.dtype_class(h.props[NAMES[ntok]].data_type)
                    act["c"] = rand_cand(rnd, typ=typ, mixed=fault and rnd.random() < 0.5)
                    h[NAMES[ntok]] = conc(act["c"])
                elif call in ("set_values", "extend_values"):
                    if not have_tok:
                        continue
                    ntok = act["n"] = rnd.choice(have_tok)
                    p = h.props[NAMES[ntok]]
                    typ = c10.dtype_class(p.data_type)
                    if fault:
                        typ = TYPES[(TYPES.index(typ) + rnd.randint(1, 3)) % 4]
                    act["c"] = rand_cand(rnd, typ=typ, mixed=fault and rnd.random() < 0.3)
                    if len(p.values) + len(act["c"]) > 900:
                        continue
                    if call == "set_values":
                        p.values = conc(act["c"])
                    else:
                        p.extend_values(conc(act["c"]))
                elif call == "clear_values":
                    cands = [t for t in have_tok if len(h.props[NAMES[t]].values)]
                    if not cands:
                        continue
                    ntok = act["n"] = rnd.choice(cands)
                    act["how"] = rnd.choice(["delete_values", "none", "emptylist"])
                    p = h.props[NAMES[ntok]]
                    if act["how"] == "delete_values":
                        p.delete_values()
                    elif act["how"] == "none":
                        p.values = None
                    else:
                        p.values = []
                elif call == "delete_property":
                    if have_tok and not fault:
                        ntok = act["n"] = rnd.choice(have_tok)
                    act["via"] = rnd.choice(["props", "dict"])
                    if act["via"] == "dict":
                        del h[NAMES[ntok]]
                    else:
                        del h.props[NAMES[ntok]]
                elif call == "create_section":
                    h.create_section(NAMES[ntok], "t")
                elif call == "delete_section":
                    subs = [s.name for s in h.sections]
                    if not subs:
                        continue
                    ntok = act["n"] = inv[rnd.choice(subs)]
                    del h.sections[NAMES[ntok]]
            except Exception as e:  # noqa
                exc = e
            if exc is None:
                act["out"] = "ok"
            elif isinstance(exc, nixio.exceptions.DuplicateName):
                act["out"] = "refused:DuplicateName"
            elif isinstance(exc, TypeError):
                act["out"] = "refused:TypeError"
            elif isinstance(exc, (KeyError, IndexError)):
                act["out"] = "refused:KeyError"
            else:
                act["out"] = "raised:" + type(exc).__name__
            reader = other if h is sec else sec
            out.write(json.dumps({"tid": tid, "act": act, "state": project(reader)}) + "\n")
            lines += 1
        nf.close()
    return lines


def validate(logpath, tmp):
    """TLC on NixMetaTrace; returns (accepted, rejected_line or None, TLCResult)."""
    res = core.run_tlc("MC_NixMetaTrace", "MC_C10_trace.cfg", tmp, workers=1, timeout=1800, coverage=False,
                       env_extra={"TRACE_FILE": logpath}, heap="4g")
    text = "\n".join(res.log_tail)
    m = re.search(r'"TRACE-REJECTED-AT-LINE", (\d+)', text)
    if m:
        return False, int(m.group(1)), res
    if res.violation is not None or res.rc != 0:
        return False, None, res
    return True, None, res


def run_binding_b(seed, ntraces, nevents, verdict, selftest=True):
    """Records, validates; then corrupts one recorded field and shows that the corrupted log is rejected."""
    nixio = core.import_nixio()
    info = {}
    with core.Scratch("traceb") as tmp:
        log = os.path.join(tmp, "meta.ndjson")
        with open(log, "w") as out:
            n = record(nixio, os.path.join(tmp, "t.nix"), seed, ntraces, nevents, out)
        ok, line, res = validate(log, tmp)
        info.update(lines=n, traces=ntraces, accepted=ok, tlc_states=res.distinct, tlc_wall_s=round(res.wall, 1))
        lines = open(log).read().splitlines()
        if not ok:
            if line is None:
                if res.violation and "TRACE-REJECTED" not in (res.violation or ""):
                    verdict.violation("trace/tlc_property_violated/" + res.violation[:60],
                                      {"tlc": res.violation, "trace": res.error_trace[:30]})
                else:
                    raise core.MachineryError("trace validation failed without a position: %s" % "\n".join(res.log_tail[-12:]))
            else:
                bad = json.loads(lines[line - 1]) if 0 < line <= len(lines) else {}
                prev = json.loads(lines[line - 2]) if line >= 2 else {}
                first = max(i for i in range(line) if json.loads(lines[i])["act"]["call"] == "reset")
                verdict.violation("trace/unexplained/%s/%s" % (bad.get("act", {}).get("call"), bad.get("act", {}).get("out")),
                                  {"line": line, "event": bad.get("act"), "logged_state": bad.get("state"),
                                   "state_before": prev.get("state")},
                                  {"engine": "NixMetaTrace", "trace": [json.loads(x) for x in lines[first:line]]})
        info["sample"] = [json.loads(x)["act"] for x in lines[1:6]]
        if ok and selftest:
            # demonstration of the binding: one logged value changed -> the log must be rejected
            k = next(i for i, x in enumerate(lines) if json.loads(x)["state"]["props"] and json.loads(x)["state"]["props"][0]["vals"])
            ev = json.loads(lines[k])
            v = ev["state"]["props"][0]["vals"][0]
            ev["state"]["props"][0]["vals"][0] = [v[0], 3 - v[1]]
            lines2 = list(lines)
            lines2[k] = json.dumps(ev)
            log2 = os.path.join(tmp, "meta_corrupt.ndjson")
            open(log2, "w").write("\n".join(lines2) + "\n")
            ok2, line2, _ = validate(log2, tmp)
            info["corrupted_log_rejected_at"] = line2
            if ok2 or line2 != k + 1:
                raise core.MachineryError("binding self-test: corrupted log (line %d) was not rejected there (%s, %s)" % (k + 1, ok2, line2))
    return info
