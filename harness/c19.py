# -*- coding: utf-8 -*-
"""C19 - creation time is fixed, update time follows attribute changes."""
from . import modelreplay as mr
from .modelcheck import run_property


def run(tier, seed, verdict):
    quick = tier != "thorough"
    runs = [mr.ModelRun("MC_C19_quick.cfg" if quick else "MC_C19.cfg", seed, probes=("reopen",),
                        name_pools=[0, 2], stride=1 if quick else 6),
            mr.ModelRun("MC_C19_links.cfg", seed + 1, probes=(), name_pools=[0], stride=4 if quick else 1)]
    return run_property(
        "C19", verdict, runs, require_actions=("Tick:ok", "ToggleAuto:ok", "Force:ok", "SetAttr:ok"),
        tlc_props=["CreatedAtFixed", "UpdatedMonotone", "TimestampLocality", "NoAutoNoChange", "ListedAttrStamps"],
        also_own=lambda f: f["action"] in ("Tick", "ToggleAuto", "Force"),
        rule="the library clock is replaced by the specification clock (ticks mapped to whole seconds from pools that "
             "include 0, 2^31-1, 2^31, leap days, 2099/2100); created_at / updated_at of every entity (file and "
             "features included) are part of the projection and are compared after every call and after reopen, so a "
             "timestamp moving on any other entity is a mismatch; TZ is set to a non-UTC zone",
        assumptions=["setters of metadata properties (definition, unit, ...) and of dimension descriptors are not in the "
                     "property's list of descriptive attributes; the specification follows the code there",
                     "only type / link type / definition / positions / extents / feature data setters are driven on "
                     "NixModel; label, unit, calibration, position, extent, units are driven by the attribute pass"])


def replay(path):
    return mr.replay_file(path)
