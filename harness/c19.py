# -*- coding: utf-8 -*-
"""C19 - creation time is fixed, update time follows attribute changes."""
from . import modelreplay as mr
from .modelcheck import run_property


def run(tier, seed, verdict):
    quick = tier != "thorough"
    runs = [mr.ModelRun("MC_C19_quick.cfg" if quick else "MC_C19.cfg", seed, probes=("reopen", "stamps"),
                        name_pools=[0, 2], stride=3 if quick else 6),
            mr.ModelRun("MC_C19_links_q1.cfg" if quick else "MC_C19_links.cfg", seed + 1, probes=("stamps",), name_pools=[0], stride=1),
            mr.ModelRun("MC_C19_fault_q1.cfg", seed + 3, probes=("stamps",), name_pools=[0], stride=1,
                        accept=lambda tx: tx["act"]["out"] != "ok"),
            mr.ModelRun("MC_Sim.cfg", seed + 2, probes=(), name_pools=[0, 1], simulate="num=%d" % (15 if quick else 300), depth=30)]
    level, cov, assumptions = run_property(
        "C19", verdict, runs, require_actions=("Tick:ok", "ToggleAuto:ok", "Force:ok", "SetAttr:ok"),
        tlc_props=["CreatedAtFixed", "UpdatedMonotone", "TimestampLocality", "NoAutoNoChange", "ListedAttrStamps"],
        also_own=lambda f: f["action"] in ("Tick", "ToggleAuto", "Force"),
        rule="the library clock is replaced by the specification clock (ticks mapped to whole seconds from pools that "
             "include 0, 2^31-1, 2^31, leap days, 2099/2100); created_at / updated_at of every entity (file and "
             "features included) are part of the projection and are compared after every call and after reopen, so a "
             "timestamp moving on any other entity is a mismatch; TZ is set to a non-UTC zone",
        assumptions=["setters of metadata properties (definition, unit, ...) and of dimension descriptors are not in the "
                     "property's list of descriptive attributes; the specification follows the code there",
                     "type / link type / definition / positions / extents / feature data are actions of NixModel; label, "
                     "unit, calibration, position, extent, units, reference, repository and adding a dimension are "
                     "applied by the 'stamps' probe on reached states (after a tick, auto on or off as the state says) "
                     "under the same rules (ListedAttrStamps, TimestampLocality, NoAutoNoChange, CreatedAtFixed)"])

    # dimension descriptors and their links (NixDimLink): no call may move a timestamp while the switch is off
    from . import runner, dimlink, c05, core
    drun = runner.ExportRun("MC_NixDimLink", "MC_C05_dims_quick.cfg", seed, "harness.dimlink",
                            opts={"ranks": c05.RANKS, "auto": False}, stride=10 if quick else 2,
                            label=lambda tx: dimlink.klass(tx["act"]) + ":" + tx["act"]["out"]).run()
    for f in drun.findings:
        if f["owner"] == "C19":
            verdict.violation(f["key"], f["detail"], f["replay"])
    if not drun.stats["replayed"]:
        raise core.MachineryError("no dimension-link transition replayed")
    cov["states"] += drun.res.distinct
    cov["transitions"] += drun.stats["exported"]
    cov["evaluations"] += drun.stats["replayed"]
    cov["traces_validated_against_impl"] += drun.stats["replayed"]
    cov["distinct_nontrivial"] += drun.stats["replayed"]
    cov["dimension_links_auto_off"] = {"replayed": drun.stats["replayed"], "per_action": dict(sorted(drun.per_action.items()))}
    cov["checker_cmd"] += " ;; " + drun.res.cmd
    return level, cov, assumptions


def replay(path):
    return mr.replay_file(path)
