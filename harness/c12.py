# -*- coding: utf-8 -*-
"""C12 - a refused operation leaves the file exactly as it was."""
from . import modelreplay as mr
from .modelcheck import run_property


def run(tier, seed, verdict):
    quick = tier != "thorough"
    refused_only = lambda tx: tx["act"].get("out", "ok") != "ok"  # noqa
    runs = [mr.ModelRun("MC_C12_quick.cfg" if quick else "MC_C12.cfg", seed, probes=("reopen", "free_name"),
                        name_pools=[0, 1, 2, 4], accept=refused_only, stride=1 if quick else 2),
            mr.ModelRun("MC_C12_free.cfg", seed + 1, probes=("free_name",), name_pools=[0, 2, 4],
                        accept=refused_only, stride=4 if quick else 1)]
    return run_property(
        "C12", verdict, runs,
        require_actions=("Create:refused:DuplicateName", "CreateBad:refused:EmptyName", "CreateBad:refused:SlashName",
                         "CreateBad:refused:EmptyType", "LinkAppend:refused:WrongKind", "LinkAppend:refused:ForeignBlock",
                         "SetRole:refused:WrongKind", "LinkRemove:refused:NotMember", "DeleteAbsent:refused:NotFound",
                         "SetAttr:refused:NoneType", "ClearRole:refused:Required"),
        tlc_props=["RefusedUnchanged"],
        also_own=lambda f: f["out"] != "ok" and f["stage"].startswith("reopen"),
        rule="every refused call (fault class x call site) is a self-loop of the state graph and is executed at every "
             "reachable state of two configurations (a populated file built by a scripted prefix, and all small "
             "files up to 4 objects); full projection before vs. after, again after reopen; after a create refused "
             "for an empty type the same name must be accepted by a valid call",
        assumptions=["fault classes driven here: duplicate / empty / slash name, empty type, type=None, wrong kind, "
                     "foreign block, not a member, unknown name / out-of-range index on delete, positions=None; the "
                     "data-type, shape, ticks and value-type classes are driven by the array / metadata checks"])


def replay(path):
    return mr.replay_file(path)
