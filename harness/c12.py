# -*- coding: utf-8 -*-
"""C12 - a refused operation leaves the file exactly as it was."""
import json

from . import core
from . import modelreplay as mr
from . import runner
from .modelcheck import run_property


def run(tier, seed, verdict):
    quick = tier != "thorough"
    refused_only = lambda tx: tx["act"].get("out", "ok") != "ok"  # noqa
    runs = [mr.ModelRun("MC_C12_quick.cfg" if quick else "MC_C12.cfg", seed, probes=("reopen", "free_name"),
                        name_pools=[0, 1, 2, 4], accept=refused_only, stride=1 if quick else 2),
            mr.ModelRun("MC_C12_free.cfg", seed + 1, probes=("free_name",), name_pools=[0, 2, 4],
                        accept=refused_only, stride=10 if quick else 1),
            # extend() on lists that already have members: a member named again before an item that is refused
            mr.ModelRun("MC_C12_extend.cfg", seed + 2, probes=(), name_pools=[0, 1],
                        accept=lambda tx: tx["act"]["name"] == "LinkExtend" and tx["act"]["out"] != "ok", stride=1)]
    level, cov, assumptions = run_property(
        "C12", verdict, runs,
        require_actions=("Create:refused:DuplicateName", "CreateBad:refused:EmptyName", "CreateBad:refused:SlashName",
                         "CreateBad:refused:EmptyType", "LinkAppend:refused:WrongKind", "LinkAppend:refused:ForeignBlock",
                         "SetRole:refused:WrongKind", "LinkRemove:refused:NotMember", "DeleteAbsent:refused:NotFound",
                         "SetAttr:refused:NoneType", "ClearRole:refused:Required", "CreateBad:refused:BadArgument",
                         "LinkExtend:refused:BadItem"),
        tlc_props=["RefusedUnchanged"],
        also_own=lambda f: f["out"] != "ok" and f["stage"].startswith("reopen"),
        rule="every refused call (fault class x call site) is a self-loop of the state graph and is executed at every "
             "reachable state of two configurations (a populated file built by a scripted prefix, and all small "
             "files up to 4 objects); full projection before vs. after, again after reopen; after a create refused "
             "for an empty type the same name must be accepted by a valid call",
        assumptions=["fault classes driven here: duplicate / empty / slash name, empty type, type=None, wrong kind, "
                     "foreign block, not a member, unknown name / out-of-range index on delete, positions=None, an "
                     "argument of the wrong kind (element type, unconvertible data, non-numeric position, cell that "
                     "does not fit its column), extend() with a legal item before an illegal one; the shape, ticks "
                     "and value-type classes are driven by the refused transitions of the array / metadata / frame / "
                     "dimension-link models below"])
    # refused calls of the other stateful modules: only the refused transitions are replayed here
    refused = lambda tx: tx["act"].get("out", "ok") != "ok"  # noqa
    from . import c10, c16, dimlink, c05
    extra = [
        ("NixMeta", runner.ExportRun("MC_NixMeta", "MC_C10_quick.cfg", seed, "harness.c10", accept=refused,
                                     opts={"names": ["n1", "n2"], "attrs": []}, stride=12 if quick else 1)),
        ("NixFrame", runner.ExportRun("MC_NixFrame", "MC_C16_quick.cfg", seed, "harness.c16", accept=refused,
                                      stride=6 if quick else 1, label=lambda tx: c16.klass(tx["act"]) + ":" + tx["act"]["out"])),
        ("NixDimLink", runner.ExportRun("MC_NixDimLink", "MC_C05_dims_quick.cfg", seed, "harness.dimlink", accept=refused,
                                        opts={"ranks": c05.RANKS}, stride=4 if quick else 1,
                                        label=lambda tx: dimlink.klass(tx["act"]) + ":" + tx["act"]["out"])),
        ("NixArray", runner.ExportRun("MC_NixArray", "MC_C01_quick.cfg", seed, "harness.arrayrefused", accept=refused,
                                      stride=2 if quick else 1)),
    ]
    cov["other_modules"] = {}
    for name, r in extra:
        r.run()
        if r.res.violation is not None:
            verdict.violation("tlc/%s/%s" % (name, r.res.violation[:80]), {"tlc": r.res.violation})
        for f in r.findings:
            owner = f.get("owner") or (c10.owner_of(f) if name == "NixMeta" else c16.owner_of(f) if name == "NixFrame" else "C12")
            if owner == "C12" or f.get("stage") == "outcome":
                verdict.violation("%s/%s" % (name, f["key"]), f["detail"], f.get("replay"))
        if not r.stats["replayed"]:
            raise core.MachineryError("vacuity: no refused transition of %s replayed" % name)
        cov["states"] += r.res.distinct
        cov["transitions"] += r.stats["exported"]
        cov["traces_validated_against_impl"] += r.stats["replayed"] - r.counters.get("truncated", 0)
        cov["evaluations"] += r.stats["replayed"]
        cov["distinct_nontrivial"] += r.stats["replayed"] - r.counters.get("truncated", 0)
        cov["other_modules"][name] = {"refused_replayed": r.stats["replayed"],
                                      "classes": {k: v for k, v in sorted(r.per_action.items()) if not k.endswith(":ok")}}
        cov["checker_cmd"] += " ;; " + r.res.cmd
    cov["rule"] += "; plus every refused transition of the metadata (wrong / mixed value types, duplicate and unknown "\
                   "names), data-frame (wrong length, unknown column, out-of-range row, duplicate column, wrong row width), "\
                   "dimension-link (illegal index specifications, unsupported descriptor kind, labels of a linked "\
                   "dimension, unordered ticks) and array (index out of range, append rank / shape mismatch, creation "\
                   "shape mismatch) modules, replayed with the full projection of that module before and after"
    return level, cov, assumptions


def replay(path):
    with open(path) as fh:
        rec = json.load(fh)
    key = rec.get("key", "")
    from . import c10, c16, dimlink
    if key.startswith("NixMeta/"):
        rec["key"] = key[len("NixMeta/"):]
        json.dump(rec, open(path + ".tmp", "w"))
        return c10.replay(path + ".tmp", prop="C12")
    if key.startswith("NixFrame/"):
        rec["key"] = key[len("NixFrame/"):]
        json.dump(rec, open(path + ".tmp", "w"))
        return c16.replay(path + ".tmp", prop="C12")
    if key.startswith("NixDimLink/"):
        rec["key"] = key[len("NixDimLink/"):]
        return dimlink.replay_record(rec, "C12")
    if key.startswith("NixArray/"):
        from . import arrayrefused
        rec["key"] = key[len("NixArray/"):]
        return arrayrefused.replay_record(rec)
    return mr.replay_file(path)
