# -*- coding: utf-8 -*-
"""
C14 - validation reports every catalogued inconsistency, nothing on consistent files.

NixValidate.tla builds abstract files (two arrays with every mix of descriptor kinds, a tag and a multi-tag referencing
one of them, block / group / source / section) with zero, one or two injected inconsistencies and defines which
<<object, error class>> pairs validation must report; TLC checks WellFormedClean, SingleDetected, Locality, ArrayLeak.
Each abstract file is built for real (injections the API refuses are written beneath it, as the repository's own
validator tests do) and File.validate()["errors"] is compared, per object and for all objects, with the expectation.
"""
import json
import os
import re

import numpy as np

from . import core
from . import runner

_W = {}
UNIT = {"none": None, "s": "ms", "V": "mV", "compound": "mV/s", "nonsi": "sillyvolts"}
TAGUNIT = {"": "", "s": "s", "V": "V", "compound": "mV/s", "nonsi": "sillyvolts"}


def init(opts):
    _W["opts"] = opts
    _W["nixio"] = nixio = core.import_nixio()
    _W["dir"] = os.path.join(opts["rundir"], "v%d" % os.getpid())
    os.makedirs(_W["dir"], exist_ok=True)
    _W["n"] = 0
    from nixio.validator import ValidationError as VE
    pats = []
    for k, v in vars(VE).items():
        if k.startswith("_") or not isinstance(v, str):
            continue
        rx = re.escape(v).replace(r"\{\}", ".*")
        pats.append((k, re.compile("^" + rx + "$")))
    _W["pats"] = pats


def classify(msg):
    hits = [k for k, rx in _W["pats"] if rx.match(msg)]
    return hits[0] if len(hits) == 1 else ("ambiguous:" + "|".join(hits) if hits else "unknown:" + msg[:60])


def _make_dim(da, d):
    unit = UNIT[d["unit"]]
    if d["kind"] == "range":
        dim = da.append_range_dimension(ticks=[1.0, 2.0, 3.0], unit=unit)
    elif d["kind"] == "sampled":
        dim = da.append_sampled_dimension(0.5, unit=unit)
    else:
        dim = da.append_set_dimension(labels=["a", "b", "c"])
    _set_dim(dim, d)
    return dim


def _set_dim(dim, d):
    """Brings one descriptor into the abstract state d (API where it accepts it, beneath it where it refuses)."""
    if d["kind"] == "range":
        if d["ticks"] == "ok":
            dim.ticks = [1.0, 2.0, 3.0]
        elif d["ticks"] == "short":
            dim.ticks = [1.0, 2.0]
        elif d["ticks"] == "none":
            dim.ticks = []
        elif d["ticks"] == "unsorted":
            dim._h5group.write_data("ticks", [3.0, 1.0, 2.0])     # the setter refuses: beneath the API
        if dim.unit != UNIT[d["unit"]]:
            dim.unit = UNIT[d["unit"]]
    elif d["kind"] == "sampled":
        want = {"pos": 0.5, "none": None, "neg": -1.0}[d["interval"]]
        if dim.sampling_interval != want:
            dim.sampling_interval = want
        if dim.unit != UNIT[d["unit"]]:
            dim.unit = UNIT[d["unit"]]
    else:
        if d["labels"] == "short":
            dim.labels = ["a"]
        elif d["labels"] == "ok":
            dim.labels = ["a", "b", "c"]


def _plain(da):
    for _ in da.shape:
        da.append_set_dimension()
    return da


def build_base(nf, base):
    """The well-formed file of the given descriptor kinds; returns the handles by abstract object name."""
    blk = nf.create_block("block", "t")
    objs = {"block": blk, "group": blk.create_group("group", "t"), "source": blk.create_source("source", "t"),
            "section": nf.create_section("section", "t")}
    good = lambda k: {"kind": k, "ticks": "ok", "labels": "ok", "interval": "pos", "unit": "none" if k == "set" else "s"}  # noqa
    for a, mix in (("a1", base["m1"]), ("a2", base["m2"])):
        da = blk.create_data_array(a, "t", data=np.zeros((3,) * len(mix)))
        for k in mix:
            _make_dim(da, good(k))
        objs[a] = da
    ref = objs[base["ref"]]
    rank = len(ref.shape)
    units = ["" if d.dimension_type.value == "set" else "s" for d in ref.dimensions]
    tag = blk.create_tag("tag", "t", [1.0] * rank)
    tag.extent = [1.0] * rank
    tag.units = units
    tag.references.append(ref)
    objs["tag"] = tag
    pos = _plain(blk.create_data_array("positions", "t", data=np.ones((2, rank))))
    mt = blk.create_multi_tag("mtag", "t", pos)
    mt.extents = _plain(blk.create_data_array("extents", "t", data=np.ones((2, rank))))
    mt.units = units
    mt.references.append(ref)
    objs["mtag"] = mt
    objs["_n"] = 0
    # a second block that re-uses every name with other (consistent) descriptors and units: nothing may ever be
    # reported for its objects, whatever is injected into the first block
    blk2 = nf.create_block("zblock", "t")
    for a, rank in (("a1", 2), ("a2", 1)):
        da = blk2.create_data_array(a, "t", data=np.zeros((3,) * rank))
        for i in range(rank):
            da.append_sampled_dimension(0.5, unit="mV") if i == 0 else da.append_set_dimension(labels=["a", "b", "c"])
    ref2 = blk2.data_arrays[base["ref"]]
    rank2 = len(ref2.shape)
    units2 = ["mV" if i == 0 else "" for i in range(rank2)]
    tag2 = blk2.create_tag("tag", "t", [1.0] * rank2)
    tag2.extent = [1.0] * rank2
    tag2.units = units2
    tag2.references.append(ref2)
    pos2 = _plain(blk2.create_data_array("positions", "t", data=np.ones((2, rank2))))
    mt2 = blk2.create_multi_tag("mtag", "t", pos2)
    mt2.extents = _plain(blk2.create_data_array("extents", "t", data=np.ones((2, rank2))))
    mt2.units = units2
    mt2.references.append(ref2)
    return objs


def apply_injection(nf, objs, inj, f):
    """Applies one injection to the open file: the touched attribute takes its value in the final abstract file f."""
    blk = objs["block"]
    obj, what = inj["obj"], inj["what"]
    objs["_n"] += 1
    if what == "no_type":
        objs[obj]._h5group.set_attr("type", None)
    elif what == "no_name":
        objs[obj]._h5group.set_attr("name", None)
    elif obj in ("a1", "a2"):
        da = objs[obj]
        dims = f[obj]["dims"]
        if what in ("dim_missing", "dim_surplus"):
            da.delete_dimensions()
            for d in dims:
                _make_dim(da, d)
        elif inj["d"] <= len(dims) and inj["d"] <= len(da.dimensions):
            # (a descriptor that a later dim_missing removes again does not exist in the final file: nothing to set)
            _set_dim(da.dimensions[inj["d"] - 1], dims[inj["d"] - 1])
    elif obj == "tag":
        t, tag = f["tag"], objs["tag"]
        if what in ("no_position", "pos_short", "pos_long"):
            tag.position = [1.0] * t["poslen"]
        elif what in ("ext_short", "ext_long"):
            tag.extent = [1.0] * t["extlen"]
        else:
            tag.units = [TAGUNIT[u] for u in t["units"]] or None
    elif obj == "mtag":
        m, mt = f["mtag"], objs["mtag"]
        if what in ("pos_short", "pos_long"):
            mt.positions = _plain(blk.create_data_array("positions%d" % objs["_n"], "t", data=np.ones((2, m["posdim"]))))
        elif what in ("ext_dim_short", "ext_rows"):
            rows = 2 if m["extrows"] == "same" else 3
            mt.extents = _plain(blk.create_data_array("extents%d" % objs["_n"], "t", data=np.ones((rows, m["extdim"]))))
        else:
            mt.units = [TAGUNIT[u] for u in m["units"]] or None


def replay_one(vec):
    nixio = _W["nixio"]
    _W["n"] += 1
    f, want = vec["cfg"]["file"], vec["r"]
    inj = vec["cfg"]["inj"]
    res = {"findings": [], "files": 1, "objects": 0}
    path = os.path.join(_W["dir"], "v%d.nix" % (_W["n"] % 2))
    ilabel = "+".join("%s.%s" % (i["obj"] if i["obj"] not in ("a1", "a2") else "array", i["what"]) for i in inj) or "wellformed"

    def finding(what, detail):
        res["findings"].append({"key": "%s/%s" % (ilabel, what), "detail": dict(detail, injections=inj), "replay": vec})

    nf = nixio.File.open(path, nixio.FileMode.Overwrite)
    try:
        try:
            objs = build_base(nf, vec["cfg"]["base"])
            # a validation of the consistent file first, then the injections one by one on the open file, each
            # followed by a validation: whatever the validator remembers between runs is warm
            first = nf.validate()
            if first["errors"]:
                finding("wellformed_base_has_errors", {"errors": {repr(k)[:40]: v[:2] for k, v in first["errors"].items()}})
                return res
            for k, i in enumerate(inj):
                apply_injection(nf, objs, i, f)
                if k < len(inj) - 1:
                    nf.validate()
        except Exception as exc:  # noqa
            raise core.MachineryError("cannot build the abstract file %r: %r" % (inj, exc))
        ids = {o.id: e for e, o in objs.items() if e != "_n"}
        aux = {a.id: a._h5group.name for a in nf.blocks[0].data_arrays if a._h5group.name.startswith(("positions", "extents"))}
        b2 = nf.blocks["zblock"]
        decoy = {b2.id: "zblock"}
        for cont in (b2.data_arrays, b2.tags, b2.multi_tags):
            for e in cont:
                decoy[e.id] = "zblock/" + e.name
        try:
            out = nf.validate()
        except Exception as exc:  # noqa
            finding("validate_raises_%s" % type(exc).__name__, {"raised": repr(exc)[:200]})
            return res
        objs.pop("_n", None)
        got = {e: set() for e in objs}
        for obj, msgs in out["errors"].items():
            oid = getattr(obj, "id", None)
            if oid in ids:
                got[ids[oid]].update(classify(m) for m in msgs)
            elif oid in aux or obj is nf or oid in decoy:
                if msgs:
                    finding("error_on_unrelated_object/%s" % ("second_block" if oid in decoy else "auxiliary"),
                            {"object": aux.get(oid) or decoy.get(oid) or "file", "messages": msgs[:3]})
            else:
                finding("error_on_unknown_object", {"object": repr(obj)[:80], "messages": msgs[:3]})
        for e in objs:
            res["objects"] += 1
            w = set(want[e])
            if got[e] != w:
                missing, extra = sorted(w - got[e]), sorted(got[e] - w)
                kind = "array" if e in ("a1", "a2") else e
                what = ("not_reported/%s/%s" % (kind, missing[0]) if missing else "reported_without_cause/%s/%s" % (kind, extra[0]))
                finding(what, {"object": e, "expected": sorted(w), "observed": sorted(got[e])})
    finally:
        try:
            nf.close()
        except Exception:  # noqa
            pass
    return res


def label(vec):
    n = len(vec["cfg"]["inj"])
    return "files_with_%d_injections" % n


def run(tier, seed, verdict):
    quick = tier != "thorough"
    runs = [runner.ExportRun("MC_NixValidate", "MC_C14_quick.cfg", seed, "harness.c14", label=label, tlc_workers=1),
            runner.ExportRun("MC_NixValidate", "MC_C14_pairs_quick.cfg" if quick else "MC_C14.cfg", seed + 1, "harness.c14",
                             label=label, stride=20 if quick else 6,
                             accept=lambda v: len(v["cfg"]["inj"]) == 2)]
    return runner.assemble(
        "C14", verdict, runs,
        rule="abstract files: arrays of rank 1 and 2 with every mix of sampled / range / set descriptors, a tag and a "
             "multi-tag referencing either, block, group, source, section; every single injection and (strided) every pair "
             "of injections from the catalogue (missing / surplus descriptor, tick / label count, missing / unsorted ticks, "
             "compound or non-SI dimension unit, missing / negative interval, missing position, position / extent / unit "
             "length mismatches, unconvertible and non-SI tag units, missing type / name) at every eligible object; the "
             "real file is built, validate() run, and the error classes compared per object, for all objects; a second block "
             "re-using every name with other consistent descriptors must never get an error",
        assumptions=["message classes are compared (by matching the validator's own message templates), not wording",
                     "missing id / missing creation date cannot be injected without breaking entity instantiation "
                     "(Entity.__init__ rejects a missing id; the created_at getter cannot parse None): left open",
                     "tag unit lists follow the repository's own 'all valid' fixture: one entry per referenced dimension, "
                     "'' for set dimensions; zero interval counts as missing",
                     "warnings and feature / property sub-entries are not judged"],
        tlc_props=["WellFormedClean", "SingleDetected", "Locality", "ArrayLeak"],
        need=("files_with_0_injections", "files_with_1_injections", "files_with_2_injections"))


def replay(path):
    with open(path) as fh:
        rec = json.load(fh)
    with core.Scratch("c14r") as tmp:
        init({"seed": 0, "rundir": tmp})
        res = replay_one(rec["replay"])
    hit = False
    for f in res["findings"]:
        print("MISMATCH key=%s\n  %s" % (f["key"], json.dumps(f["detail"], default=repr)[:800]))
        hit = hit or f["key"] == rec["key"]
    print("recorded key %s: %s" % (rec["key"], "REPRODUCED" if hit else "not reproduced"))
    if hit:
        print("VIOLATION property=C14 replay=%s" % path)
    return 1 if hit else 0
