# -*- coding: utf-8 -*-
import argparse
import glob
import importlib
import os
import subprocess
import sys
import traceback

from . import core

CHECKS = {
    # property id -> module under harness/ providing run(tier, seed, verdict)
    "C01": "c01",
    "C02": "c02",
    "C03": "c03",
    "C04": "c04",
    "C05": "c05",
    "C06": "c06",
    "C07": "c07",
    "C08": "c08",
    "C09": "c09",
    "C10": "c10",
    "C11": "c11",
    "C12": "c12",
    "C13": "c13",
    "C14": "c14",
    "C15": "c15",
    "C16": "c16",
    "C17": "c17",
    "C18": "c18",
    "C19": "c19",
    "C20": "c20",
}


def setup():
    """Offline set-up: parse every specification with SANY, create output dirs."""
    os.makedirs(core.EVID, exist_ok=True)
    os.makedirs(core.REPLAYS, exist_ok=True)
    bad = 0
    for tla in sorted(glob.glob(os.path.join(core.SPEC, "*.tla"))):
        proc = subprocess.run(["java", "-cp", core.JAR, "tla2sany.SANY", tla],
                              cwd=core.SPEC, stdout=subprocess.PIPE, stderr=subprocess.STDOUT, text=True)
        ok = proc.returncode == 0 and "*** Errors" not in proc.stdout and "Fatal errors" not in proc.stdout
        print("%-28s %s" % (os.path.basename(tla), "ok" if ok else "SANY ERROR"))
        if not ok:
            print(proc.stdout[-2000:])
            bad += 1
    try:
        core.import_nixio()
        print("nixio importable from %s" % core.REPO)
    except Exception as exc:  # noqa
        print("cannot import nixio: %r" % exc)
        bad += 1
    return 2 if bad else 0


def main(argv=None):
    ap = argparse.ArgumentParser(prog="check")
    ap.add_argument("prop", nargs="?")
    ap.add_argument("--tier", default=os.environ.get("VERIF_TIER", "quick"), choices=["quick", "thorough"])
    ap.add_argument("--seed", type=int, default=int(os.environ.get("VERIF_SEED", "0") or 0))
    ap.add_argument("--replay")
    ap.add_argument("--setup", action="store_true")
    ap.add_argument("--selftest", action="store_true")
    args = ap.parse_args(argv)
    if args.setup:
        return setup()
    if args.selftest:
        from . import selftest
        return selftest.main()
    if args.prop not in CHECKS:
        print("unknown or unclaimed property %r; claimed: %s" % (args.prop, " ".join(sorted(CHECKS))))
        return 2
    mod = importlib.import_module("harness." + CHECKS[args.prop])
    if args.replay:
        if not hasattr(mod, "replay"):
            print("no replay entry point for %s" % args.prop)
            return 2
        return mod.replay(args.replay)
    verdict = core.Verdict(args.prop, args.tier, args.seed)
    if args.tier == "thorough":
        # every export run of the thorough tier replays for at most this long at full density (core.Budget)
        os.environ.setdefault("VERIF_RUN_BUDGET", "300")
    try:
        level, coverage, assumptions = mod.run(args.tier, args.seed, verdict)
    except core.MachineryError as exc:
        if any(k not in verdict.open for k in verdict.violations):
            # a vacuity / truncation guard fired AFTER violations had been recorded: the violations explain it and are
            # what has to be reported (exit 1), not the guard (exit 2)
            verdict.note("run cut short by a machinery guard after violations were found: %s" % exc)
            return verdict.finish("model_checking", {"states": 0, "transitions": 0, "traces_validated_against_impl": 0,
                                                     "samples": [{"note": "run cut short, see notes"}],
                                                     "exhaustive": False, "aborted": str(exc)}, [])
        print("MACHINERY-FAILURE %s: %s" % (args.prop, exc))
        return 2
    except Exception:  # noqa
        print("MACHINERY-FAILURE %s: unexpected exception" % args.prop)
        traceback.print_exc()
        return 2
    return verdict.finish(level, coverage, assumptions)


if __name__ == "__main__":
    sys.exit(main())
