# -*- coding: utf-8 -*-
"""
Binding between NixModel.tla and the real nixio API.

  Conc        concretisation: tokens -> names, attribute values, data, timestamps, access paths
  Session     one scratch file + registry (spec object number -> how to reach it) + executor of spec actions
  expected()  spec state (as exported by TLC)  -> canonical tree
  project()   real file (public API only)      -> canonical tree   (never raises: ERR:<class> in place)
  diff()      first differences of two trees, classified into facets
"""
import hashlib
import os
import random
import time as _time

import numpy as np

from . import core

LINKTYPES = {1: "tagged", 2: "untagged", 3: "indexed"}

NAME_POOLS = [
    ("ascii",    {"n1": "alpha", "n2": "beta", "n3": "gamma", "n4": "delta"}),
    ("reversed", {"n1": "zeta", "n2": "mu", "n3": "beta", "n4": "alpha"}),
    ("unicode",  {"n1": "Zu\u0308rich \u212b", "n2": "名前", "n3": "Ünïcødé β", "n4": "na\u0303o"}),
    ("long",     {"n1": "L" * 1000, "n2": "M" * 999 + "1", "n3": "M" * 999 + "2", "n4": "K" * 513}),
    ("dots",     {"n1": "..", "n2": " a.b. ", "n3": ".hidden", "n4": "a\\b"}),
    ("uuidlike", {"n1": "0123456789abcdef0123456789abcdef", "n2": "6fa459ea-ee8a-3ca4-894e-db77e160355e",
                  "n3": "ABCDEF0123456789ABCDEF0123456789", "n4": "{12345678-1234-5678-1234-567812345678}"}),
]
VALUE_POOLS = [
    {1: "plain", 2: "second value", 3: "third"},
    {1: "ünï çødé ✓", 2: "", 3: "x" * 300},
    {1: "", 2: "Größe/µ", 3: " "},
]
TYPE_POOLS = [
    {1: "nix.test", 2: "nix.other", 3: "nix.third"},
    {1: "тип", 2: "t y p e", 3: "z"},
]
TIME_POOLS = [
    [None, 1000000000, 1000000001, 1000000060, 1000003600, 1000086400, 1100000000],
    [None, 0, 1, 951782400, 951868799, 2147483647, 2147483648],
    [None, 2147483646, 2147483647, 2147483648, 4102444799, 4102444800, 4133980799],
]
DERIVED = {"pos": "{}-positions", "ext": "{}-extents"}


class Conc:
    """Deterministic function of (seed, pool selection) from tokens to concrete inputs."""

    def __init__(self, seed, name_pool=None):
        self.seed = seed
        self.rnd = random.Random(seed)
        self.npool = (seed if name_pool is None else name_pool) % len(NAME_POOLS)
        self.pool_name, self.names = NAME_POOLS[self.npool]
        self.values = VALUE_POOLS[(seed // 7) % len(VALUE_POOLS)]
        self.types = TYPE_POOLS[(seed // 3) % len(TYPE_POOLS)]
        self.times = TIME_POOLS[(seed // 5) % len(TIME_POOLS)]

    def name(self, tok):
        if isinstance(tok, str) and ":" in tok:          # derived names "pos:n1"
            kind, base = tok.split(":", 1)
            return DERIVED[kind].format(self.names[base])
        return self.names[tok]

    def typ(self, tok):
        if tok >= 200:                                   # type of an auto-created extents array
            return self.types[tok - 200] + "-extents"
        if tok >= 100:                                   # ... positions array
            return self.types[tok - 100] + "-positions"
        return self.types[tok]

    def value(self, tok):
        return None if tok == 0 else self.values[tok]

    def time(self, tick):
        return self.times[tick]

    @staticmethod
    def data(tok):
        return [float(10 * tok + i) for i in range(3)]

    @staticmethod
    def pvalues(tok):
        return [100 * tok + 1, 100 * tok + 2]

    def describe(self):
        return {"seed": self.seed, "names": self.pool_name, "values": self.values,
                "types": self.types, "times": self.times[1:]}


# ---------------------------------------------------------------------------
# expected tree from a spec state

CONTAINERS = {
    "file": [("blocks", "block"), ("sections", "section")],
    "block": [("groups", "group"), ("data_arrays", "array"), ("data_frames", "frame"), ("tags", "tag"),
              ("multi_tags", "mtag"), ("sources", "source")],
    "tag": [("features", "feature")],
    "mtag": [("features", "feature")],
    "source": [("sources", "source")],
    "section": [("props", "property"), ("sections", "section")],
}
LISTS = {"group": ["data_arrays", "data_frames", "tags", "multi_tags", "sources"], "array": ["sources"],
         "tag": ["references", "sources"], "mtag": ["references", "sources"]}
HAS_META = {"block", "group", "array", "frame", "tag", "mtag", "source"}
FRAME_ROWS = [(1, "x"), (2, "ü"), (3, "")]


def expected(state, conc):
    objs = {o["id"]: o for o in state["objs"]}

    def alias(oid):
        if oid == 0 or oid not in objs:
            return None
        o = objs[oid]
        d = {"eid": "e%d" % o["eid"], "name": conc.name(o["name"]), "type": conc.typ(o["typ"]),
             "definition": conc.value(o["def"])}
        if o["kind"] == "array":
            d["data"] = conc.data(o["dtok"])
        return d

    def node(o):
        k = o["kind"]
        if k == "feature":
            d = {"eid": "e%d" % o["eid"], "link_type": LINKTYPES[o["typ"]],
                 "data": alias(o["rl"]["data"]) or "MISSING",
                 "c": conc.time(o["c"]), "u": conc.time(o["u"])}
            return d
        if k == "property":
            return {"name": conc.name(o["name"]), "eid": "e%d" % o["eid"], "definition": conc.value(o["def"]),
                    "values": conc.pvalues(o["dtok"]), "c": conc.time(o["c"]), "u": conc.time(o["u"])}
        d = {"name": conc.name(o["name"]), "eid": "e%d" % o["eid"], "type": conc.typ(o["typ"]),
             "definition": conc.value(o["def"]), "c": conc.time(o["c"]), "u": conc.time(o["u"])}
        if k in HAS_META:
            d["metadata"] = alias(o["rl"]["metadata"])
        if k == "array":
            d["data"] = conc.data(o["dtok"])
        if k == "frame":
            d["rows"] = [list(r) for r in FRAME_ROWS]
        if k == "mtag":
            d["positions"] = alias(o["rl"]["positions"]) or "MISSING"
            d["extents"] = alias(o["rl"]["extents"])
        for ln in LISTS.get(k, ()):
            d["links:" + ln] = [alias(x) for x in o["ls"][ln]]
        for cname, ckind in CONTAINERS.get(k, ()):
            d[cname] = [node(c) for c in state["objs"] if c["owner"] == o["id"] and c["kind"] == ckind]
        return d

    tree = {"file": {"c": conc.time(state["fts"]["c"]), "u": conc.time(state["fts"]["u"])}}
    for cname, ckind in CONTAINERS["file"]:
        tree[cname] = [node(c) for c in state["objs"] if c["owner"] == 0 and c["kind"] == ckind]
    return tree


# ---------------------------------------------------------------------------
# projection of the real file

class Registry:
    """uuid -> entity-id token; built when entities are created (never guessed)."""

    def __init__(self):
        self.tok = {}
        self.problems = []

    def bind(self, uuid, token):
        import uuid as _uuid
        try:
            canon = str(_uuid.UUID(uuid))
            wellformed = (canon == uuid)
        except Exception:  # noqa
            wellformed = False
        if not wellformed:
            self.problems.append("id %r of %s is not a canonical UUID" % (uuid, token))
        old = self.tok.get(uuid)
        if old is not None and old != token:
            self.problems.append("id %r given to %s was already given to %s" % (uuid, token, old))
        self.tok[uuid] = token

    def token(self, uuid):
        return self.tok.get(uuid, "unknown-id:%s" % (uuid,))


def _safe(fn):
    try:
        return fn()
    except Exception as exc:  # noqa
        return "ERR:%s" % type(exc).__name__


def _listify(x):
    if isinstance(x, str):
        return x
    try:
        return [float(v) for v in np.asarray(x).ravel()]
    except Exception as exc:  # noqa
        return "ERR:%s" % type(exc).__name__


def project(nf, reg):
    def common(e):
        return {"name": _safe(lambda: e.name), "eid": _safe(lambda: reg.token(e.id)),
                "type": _safe(lambda: e.type), "definition": _safe(lambda: e.definition),
                "c": _safe(lambda: e.created_at), "u": _safe(lambda: e.updated_at)}

    def alias(getter, kind=None):
        try:
            e = getter()
        except RuntimeError:
            return "MISSING"
        except Exception as exc:  # noqa
            return "ERR:%s" % type(exc).__name__
        if e is None:
            return None
        d = {"eid": _safe(lambda: reg.token(e.id)), "name": _safe(lambda: e.name),
             "type": _safe(lambda: e.type), "definition": _safe(lambda: e.definition)}
        if type(e).__name__ == "DataArray":
            d["data"] = _safe(lambda: _listify(e[:]))
        return d

    def links(getter):
        try:
            cont = getter()
            return [alias(lambda m=m: m) for m in cont]
        except Exception as exc:  # noqa
            return "ERR:%s" % type(exc).__name__

    def children(getter, fn):
        try:
            return [fn(c) for c in getter()]
        except Exception as exc:  # noqa
            return "ERR:%s" % type(exc).__name__

    def feature(ft):
        return {"eid": _safe(lambda: reg.token(ft.id)), "link_type": _safe(lambda: ft.link_type.value),
                "data": alias(lambda: ft.data), "c": _safe(lambda: ft.created_at), "u": _safe(lambda: ft.updated_at)}

    def prop(p):
        return {"name": _safe(lambda: p.name), "eid": _safe(lambda: reg.token(p.id)),
                "definition": _safe(lambda: p.definition),
                "values": _safe(lambda: [int(v) if isinstance(v, (int, np.integer)) and not isinstance(v, (bool, np.bool_)) else v
                                         for v in p.values]),
                "c": _safe(lambda: p.created_at), "u": _safe(lambda: p.updated_at)}

    def source(s):
        d = common(s)
        d["metadata"] = alias(lambda: s.metadata)
        d["sources"] = children(lambda: s.sources, source)
        return d

    def section(s):
        d = common(s)
        d["props"] = children(lambda: s.props, prop)
        d["sections"] = children(lambda: s.sections, section)
        return d

    def group(g):
        d = common(g)
        d["metadata"] = alias(lambda: g.metadata)
        for ln in LISTS["group"]:
            d["links:" + ln] = links(lambda ln=ln: getattr(g, ln))
        return d

    def array(a):
        d = common(a)
        d["metadata"] = alias(lambda: a.metadata)
        d["data"] = _safe(lambda: _listify(a[:]))
        d["links:sources"] = links(lambda: a.sources)
        return d

    def frame(fr):
        d = common(fr)
        d["metadata"] = alias(lambda: fr.metadata)
        d["rows"] = _safe(lambda: [[int(r["a"]), str(r["b"])] for r in fr[:]])
        return d

    def tag(t, multi=False):
        d = common(t)
        d["metadata"] = alias(lambda: t.metadata)
        if multi:
            d["positions"] = alias(lambda: t.positions)
            d["extents"] = alias(lambda: t.extents)
        d["links:references"] = links(lambda: t.references)
        d["links:sources"] = links(lambda: t.sources)
        d["features"] = children(lambda: t.features, feature)
        return d

    def block(b):
        d = common(b)
        d["metadata"] = alias(lambda: b.metadata)
        d["groups"] = children(lambda: b.groups, group)
        d["data_arrays"] = children(lambda: b.data_arrays, array)
        d["data_frames"] = children(lambda: b.data_frames, frame)
        d["tags"] = children(lambda: b.tags, tag)
        d["multi_tags"] = children(lambda: b.multi_tags, lambda t: tag(t, True))
        d["sources"] = children(lambda: b.sources, source)
        return d

    tree = {"file": {"c": _safe(lambda: nf.created_at), "u": _safe(lambda: nf.updated_at)}}
    tree["blocks"] = children(lambda: nf.blocks, block)
    tree["sections"] = children(lambda: nf.sections, section)
    return tree


def expected_shallow(state, conc):
    """Per object number: what shallow() must report (same fields)."""
    objs = {o["id"]: o for o in state["objs"]}
    out = {}
    for o in state["objs"]:
        k = o["kind"]
        d = {}
        if k == "feature":
            d["link_type"] = LINKTYPES[o["typ"]]
        else:
            d["name"] = conc.name(o["name"])
            d["definition"] = conc.value(o["def"])
            if k != "property":
                d["type"] = conc.typ(o["typ"])
        if k == "array":
            d["data"] = conc.data(o["dtok"])
        if k == "property":
            d["values"] = conc.pvalues(o["dtok"])
        for ln in LISTS.get(k, ()):
            d["links:" + ln] = ["e%d" % objs[x]["eid"] for x in o["ls"][ln] if x in objs]
            d["links:" + ln + "@pos"] = d["links:" + ln] + d["links:" + ln][-1:]
        for cname, ckind in CONTAINERS.get(k, ()):
            d[cname] = ["e%d" % c["eid"] for c in state["objs"] if c["owner"] == o["id"] and c["kind"] == ckind]
            d[cname + "@pos"] = d[cname] + d[cname][-1:]
        if k in HAS_META:
            m = o["rl"]["metadata"]
            d["metadata"] = None if not m or m not in objs else "e%d" % objs[m]["eid"]
        out[o["id"]] = d
    return out


def diff(exp, act, path="", out=None, limit=6):
    """List of (path, expected, actual) for the first differences."""
    if out is None:
        out = []
    if len(out) >= limit:
        return out
    if isinstance(exp, dict) and isinstance(act, dict):
        for k in sorted(set(exp) | set(act)):
            if k not in exp:
                out.append((path + "/" + k, "<absent>", act[k]))
            elif k not in act:
                out.append((path + "/" + k, exp[k], "<absent>"))
            else:
                diff(exp[k], act[k], path + "/" + k, out, limit)
            if len(out) >= limit:
                break
    elif isinstance(exp, list) and isinstance(act, list):
        if len(exp) != len(act):
            out.append((path + "/#len", len(exp), len(act)))
            summ = lambda l: [x.get("name", x.get("eid")) if isinstance(x, dict) else x for x in l]  # noqa
            out.append((path + "/#members", summ(exp), summ(act)))
        else:
            for i, (a, b) in enumerate(zip(exp, act)):
                diff(a, b, "%s[%d]" % (path, i), out, limit)
                if len(out) >= limit:
                    break
    else:
        same = exp == act
        if not same and isinstance(exp, float) and isinstance(act, float) and exp != exp and act != act:
            same = True
        if not same:
            out.append((path, exp, act))
    return out


def facet_of(path):
    leaf = path.rsplit("/", 1)[-1]
    if leaf in ("c", "u"):
        return "time"
    return "content"


def strip_times(tree):
    if isinstance(tree, dict):
        return {k: strip_times(v) for k, v in tree.items() if k not in ("c", "u")}
    if isinstance(tree, list):
        return [strip_times(v) for v in tree]
    return tree


# ---------------------------------------------------------------------------
# executing spec actions

class Outcome:
    def __init__(self, ok, exc=None):
        self.ok = ok
        self.exc = exc

    @property
    def cls(self):
        return type(self.exc).__name__ if self.exc is not None else None


class Session:
    """A scratch file and the replayer's knowledge of which spec object is what."""

    def __init__(self, nixio, path, conc, how_seed=0):
        self.nixio = nixio
        self.path = path
        self.conc = conc
        self.reg = Registry()
        self.clock = 1
        self.auto = True
        self.rnd = random.Random(how_seed)
        self.handles = {}     # object number -> handle obtained at creation (session-continuous)
        self.handles_b = {}   # object number -> second long-lived handle (first lookup, kept)
        self.meta = {}        # object number -> (kind, owner, name token)
        self._install_clock()
        self.nf = nixio.File.open(path, nixio.FileMode.Overwrite)
        # the file is created "at tick 1"
        self.log = []

    # -- clock --------------------------------------------------------------
    def _install_clock(self):
        sess = self

        def fake_now():
            return sess.conc.time(sess.clock)
        import nixio.util as pkg
        import nixio.util.util as mod
        pkg.now_int = fake_now
        mod.now_int = fake_now

    # -- reaching objects ---------------------------------------------------
    def container_of(self, owner, kind):
        parent = self.nf if owner == 0 else self.obj(owner)
        attr = {"block": "blocks", "section": "sections", "group": "groups", "array": "data_arrays",
                "frame": "data_frames", "tag": "tags", "mtag": "multi_tags", "source": "sources", "feature": "features",
                "property": "props"}[kind]
        return getattr(parent, attr)

    def obj(self, num, fresh=None):
        """Handle for spec object `num`: the one kept from creation, or a fresh one through the public path."""
        kind, owner, name = self.meta[num]
        # three ways to reach an entity: the handle kept from creation (A), a second long-lived handle that
        # was looked up once and is kept (B) - both carry whatever the library caches on handle objects -
        # and a fresh lookup that is thrown away
        r = self.rnd.random()
        if fresh is None:
            which = "A" if r < 0.4 else ("B" if r < 0.8 else "fresh")
        else:
            which = "fresh" if fresh else ("A" if r < 0.5 else "B")
        if which == "A":
            h = self.handles.get(num)
            if h is not None:
                return h
            which = "B"
        if which == "B":
            h = self.handles_b.get(num)
            if h is not None:
                return h
        cont = self.container_of(owner, kind)
        # lookup by iteration (robust against name/id dispatch problems, which are C03's business and
        # probed there explicitly)
        want_name = None if kind == "feature" else self.conc.name(name)
        for cand in cont:
            # id and name: after a copy that keeps the ids two entities of one container can share an id
            if cand.id == self.uuid[num] and (want_name is None or cand.name == want_name):
                if which == "B":
                    self.handles_b[num] = cand
                return cand
        raise KeyError("spec object %d (%s) not reachable" % (num, kind))

    uuid = None

    eidnum = None

    def remember(self, num, handle, kind, owner, name, eid=None):
        if self.uuid is None:
            self.uuid = {}
        if self.eidnum is None:
            self.eidnum = {}
        self.handles[num] = handle
        self.meta[num] = (kind, owner, name)
        self.uuid[num] = handle.id
        self.eidnum[num] = num if eid is None else eid
        self.reg.bind(handle.id, "e%d" % self.eidnum[num])
        # a second long-lived handle, looked up right away and kept for the rest of the session
        try:
            self.handles_b[num] = self.obj(num, fresh=True)
        except Exception:  # noqa
            pass

    def noise(self, state):
        """
        Calls that the specification refuses in `state` (they stutter: RefusedUnchanged), made through fresh handles:
        a duplicate name, a member of another block offered to a link list / as feature data, a delete of something
        absent.  Returns the description of the first call that was ACCEPTED (None when all were refused).
        """
        nixio = self.nixio
        objs = {o["id"]: o for o in state["objs"]}
        blocks = [o for o in state["objs"] if o["kind"] == "block"]
        cands = []
        for b in blocks:
            cands.append(("create_block_duplicate", lambda b=b: self.nf.create_block(self.conc.name(b["name"]), "t")))
        for o in state["objs"]:
            own = objs.get(o["owner"])
            if o["kind"] == "array" and own:
                cands.append(("create_data_array_duplicate",
                              lambda o=o: self.obj(o["owner"], fresh=True).create_data_array(self.conc.name(o["name"]), "t", data=[1.0])))
                foreign = [t for t in state["objs"] if t["kind"] in ("tag", "mtag") and t["owner"] != o["owner"]]
                for t in foreign[:1]:
                    cands.append(("create_feature_foreign_array",
                                  lambda o=o, t=t: self.obj(t["id"], fresh=True).create_feature(self.obj(o["id"], fresh=True), nixio.LinkType.Untagged)))
                    cands.append(("references_append_foreign_array",
                                  lambda o=o, t=t: self.obj(t["id"], fresh=True).references.append(self.obj(o["id"], fresh=True))))
                fg = [g for g in state["objs"] if g["kind"] == "group" and g["owner"] != o["owner"]]
                for g in fg[:1]:
                    cands.append(("group_append_foreign_array",
                                  lambda o=o, g=g: self.obj(g["id"], fresh=True).data_arrays.append(self.obj(o["id"], fresh=True))))
            if o["kind"] == "section":
                cands.append(("create_section_duplicate",
                              lambda o=o: (self.nf if o["owner"] == 0 else self.obj(o["owner"], fresh=True)).create_section(self.conc.name(o["name"]), "t")))
            if o["kind"] == "source" and own:
                cands.append(("create_source_duplicate",
                              lambda o=o: self.obj(o["owner"], fresh=True).create_source(self.conc.name(o["name"]), "t")))
        for o in state["objs"]:
            if o["kind"] == "tag":
                def bad_position(o=o):
                    t = self.obj(o["id"], fresh=True)
                    before = (tuple(t.position), tuple(t.extent))
                    try:
                        if self.rnd.random() < 0.5:
                            t.position = ["a"]
                        else:
                            t.extent = [1.0, "a"]
                    finally:
                        if (tuple(t.position), tuple(t.extent)) != before:
                            raise AssertionError("refused position / extent assignment changed the stored values")
                cands.append(("tag_position_not_numeric", bad_position))
        cands.append(("delete_absent_block", lambda: self.nf.blocks.__delitem__("no such block")))
        self.rnd.shuffle(cands)
        for what, fn in cands[:2]:
            try:
                fn()
            except AssertionError as exc:
                return "%s: %s" % (what, exc)
            except Exception:  # noqa
                continue
            return what
        return None

    def touch(self):
        """
        What a long-running client does between calls: every long-lived handle looks at its containers and link
        lists (length, iteration, membership by id), so whatever the library caches on handle objects is warm.
        """
        alive = self.alive_ids()
        for store in (self.handles, self.handles_b):
            for num, h in list(store.items()):
                # handles of deleted entities are not used any more (what they do is not covered by any property)
                if self.uuid.get(num) not in alive:
                    # kept aside: a client may still hold it, and may ask whether it is a member of its old container
                    if not hasattr(self, "dead_handles"):
                        self.dead_handles = {}
                    self.dead_handles.setdefault(num, h)
                    store.pop(num, None)
                    continue
                kind = self.meta[num][0]
                names = [c for c, _ in CONTAINERS.get(kind, ())] + list(LISTS.get(kind, ()))
                for cname in names:
                    try:
                        cont = getattr(h, cname)
                        for m in cont:
                            _ = m.id in cont
                        if len(cont):
                            _ = cont[0], cont[-1]
                    except Exception:  # noqa
                        pass
        try:
            for cname in ("blocks", "sections"):
                cont = getattr(self.nf, cname)
                for m in cont:
                    _ = m.id in cont
        except Exception:  # noqa
            pass

    def shallow(self, num, h):
        """What one handle reports about its own entity: attributes, link lists, role links, child names."""
        kind = self.meta[num][0]
        reg = self.reg
        d = {}
        if kind == "feature":
            d["link_type"] = _safe(lambda: h.link_type.value)
        else:
            d["name"] = _safe(lambda: h.name)
            d["definition"] = _safe(lambda: h.definition)
            if kind != "property":
                d["type"] = _safe(lambda: h.type)
        if kind == "array":
            d["data"] = _safe(lambda: _listify(h[:]))
        if kind == "property":
            d["values"] = _safe(lambda: [int(v) for v in h.values])
        def bypos(cont):
            n = len(cont)
            return [reg.token(cont[i].id) for i in range(n)] + ([reg.token(cont[-1].id)] if n else [])
        for ln in LISTS.get(kind, ()):
            d["links:" + ln] = _safe(lambda ln=ln: [reg.token(m.id) for m in getattr(h, ln)])
            d["links:" + ln + "@pos"] = _safe(lambda ln=ln: bypos(getattr(h, ln)))
        for cname, _k in CONTAINERS.get(kind, ()):
            d[cname] = _safe(lambda cname=cname: [reg.token(m.id) for m in getattr(h, cname)])
            d[cname + "@pos"] = _safe(lambda cname=cname: bypos(getattr(h, cname)))
        if kind in HAS_META:
            d["metadata"] = _safe(lambda: None if h.metadata is None else reg.token(h.metadata.id))
        return d

    def forget(self, alive):
        for num in list(self.handles):
            if num not in alive:
                # the handle a client may still hold of the deleted entity (only ever asked whether it is a member)
                if not hasattr(self, "dead_handles"):
                    self.dead_handles = {}
                self.dead_handles[num] = self.handles.get(num)
                self.handles.pop(num, None)
                self.handles_b.pop(num, None)

    def reopen(self, mode):
        self.nf.close()
        self.handles = {}
        self.handles_b = {}
        # the switch is given at open time or set afterwards (C19: "set at open time or toggled later")
        if self.rnd.random() < 0.5:
            self.nf = self.nixio.File.open(self.path, mode, auto_update_timestamps=self.auto)
        else:
            self.nf = self.nixio.File.open(self.path, mode)
            self.nf.auto_update_timestamps = self.auto
        return self.nf

    def close(self):
        try:
            self.nf.close()
        except Exception:  # noqa
            pass

    # -- actions ------------------------------------------------------------
    def free_name(self, owner, kind):
        """A concrete name that is not in use in that container right now (read from the file)."""
        used = set(m.name for m in self.container_of(owner, kind))
        for tok in sorted(self.conc.names):
            if self.conc.names[tok] not in used:
                return self.conc.names[tok]
        return "free-name"

    def apply(self, act):
        """Execute one spec action; returns Outcome(ok=True) or Outcome(False, exception)."""
        nix = self.nixio
        name = act["name"]
        try:
            if name == "Create":
                k, p = act["kind"], act["owner"]
                parent = self.nf if p == 0 else self.obj(p)
                nm, tp = self.conc.name(act["n"]), self.conc.typ(act["t"])
                if k == "block":
                    h = parent.create_block(nm, tp)
                elif k == "group":
                    h = parent.create_group(nm, tp)
                elif k == "array":
                    h = parent.create_data_array(nm, tp, data=self.conc.data(0))
                elif k == "frame":
                    from collections import OrderedDict
                    h = parent.create_data_frame(nm, tp, col_dict=OrderedDict([("a", np.int64), ("b", str)]),
                                                 data=FRAME_ROWS)
                elif k == "tag":
                    h = parent.create_tag(nm, tp, [1.0, 2.0])
                elif k == "source":
                    h = parent.create_source(nm, tp)
                elif k == "section":
                    h = parent.create_section(nm, tp)
                else:
                    raise core.MachineryError("Create of kind %s" % k)
                self.remember(act["new"], h, k, p, act["n"])
            elif name == "CreateMTag":
                b = self.obj(act["owner"])
                pos = self.obj(act["pos"])
                ext = self.obj(act["ext"]) if act["ext"] else None
                h = b.create_multi_tag(self.conc.name(act["n"]), self.conc.typ(act["t"]), pos, ext)
                self.remember(act["new"], h, "mtag", act["owner"], act["n"])
            elif name == "CreateMTagAuto":
                b = self.obj(act["owner"])
                nm_ = self.conc.name(act["n"])
                h = b.create_multi_tag(nm_, self.conc.typ(act["t"]), positions=self.conc.data(0),
                                       extents=self.conc.data(0) if act["ext"] else None)
                k = 2 if act["ext"] else 1
                # handles through the primary container (a handle obtained through a role link names the
                # link, not the array: it is not expected to survive the link being cleared)
                self.remember(act["new"], b.data_arrays[nm_ + "-positions"], "array", act["owner"], "pos:" + act["n"])
                if act["ext"]:
                    self.remember(act["new"] + 1, b.data_arrays[nm_ + "-extents"], "array", act["owner"], "ext:" + act["n"])
                self.remember(act["new"] + k, h, "mtag", act["owner"], act["n"])
            elif name == "CreateFeature":
                tg = self.obj(act["owner"])
                h = tg.create_feature(self.obj(act["data"]), LINKTYPES[act["t"]])
                self.remember(act["new"], h, "feature", act["owner"], "")
            elif name == "CreateProperty":
                s = self.obj(act["owner"])
                h = s.create_property(self.conc.name(act["n"]), self.conc.pvalues(act["v"]))
                self.remember(act["new"], h, "property", act["owner"], act["n"])
            elif name == "CreateBad":
                self._create_bad(act)
            elif name == "SetAttr":
                o = self.obj(act["o"])
                kind = self.meta[act["o"]][0]
                if act["f"] == "typ":
                    if kind == "feature":
                        o.link_type = LINKTYPES[act["v"]]
                    else:
                        o.type = None if act["v"] == 0 else self.conc.typ(act["v"])
                else:
                    o.definition = self.conc.value(act["v"])
            elif name == "WriteData":
                o = self.obj(act["o"])
                if self.meta[act["o"]][0] == "array":
                    if self.rnd.random() < 0.5:
                        o.write_direct(np.array(self.conc.data(act["v"])))
                    else:
                        o[:] = self.conc.data(act["v"])
                else:
                    o.values = self.conc.pvalues(act["v"])
            elif name == "Tick":
                self.clock += 1
            elif name == "ToggleAuto":
                self.auto = act["to"]
                self.nf.auto_update_timestamps = act["to"]
            elif name == "Force":
                o = self.nf if act["o"] == 0 else self.obj(act["o"])
                t = self.conc.time(act["t"])
                if act["which"] == "c":
                    o.force_created_at(t)
                else:
                    o.force_updated_at(t)
            elif name == "LinkAppend":
                getattr(self.obj(act["o"]), act["l"]).append(self.obj(act["x"]))
            elif name == "LinkExtend":
                getattr(self.obj(act["o"]), act["l"]).extend([self.obj(act["x"]), self.obj(act["y"])])
            elif name == "LinkRemove":
                cont = getattr(self.obj(act["o"]), act["l"])
                x = self.obj(act["x"])
                if act["out"] == "ok":
                    self._del(cont, x, linklist=True)
                else:
                    del cont[x]
            elif name == "SetRole":
                o, x = self.obj(act["o"]), self.obj(act["x"])
                r = act["r"]
                if r == "metadata":
                    o.metadata = x
                elif r == "positions":
                    o.positions = x
                elif r == "extents":
                    o.extents = x
                elif r == "data":
                    o.data = x
            elif name == "ClearRole":
                o = self.obj(act["o"])
                if act["r"] == "metadata":
                    del o.metadata
                elif act["r"] == "extents":
                    o.extents = None
                elif act["r"] == "positions":
                    o.positions = None
            elif name == "Delete":
                num = act["o"]
                kind, owner, _ = self.meta[num]
                cont = self.container_of(owner, kind)
                self._del(cont, self.obj(num))
            elif name == "Copy":
                k = act["kind"]
                src = self.obj(act["src"])
                dest = self.nf if act["dest"] == 0 else self.obj(act["dest"])
                nm_, keep = self.conc.name(act["n"]), act["keep"]
                if k == "block":
                    ret = dest.create_block(name=nm_, copy_from=src, keep_copy_id=keep)
                elif k == "array":
                    ret = dest.create_data_array(name=nm_, copy_from=src, keep_copy_id=keep)
                elif k == "frame":
                    ret = dest.create_data_frame(name=nm_, copy_from=src, keep_copy_id=keep)
                elif k == "tag":
                    ret = dest.create_tag(name=nm_, copy_from=src, keep_copy_id=keep)
                elif k == "mtag":
                    ret = dest.create_multi_tag(name=nm_, copy_from=src, keep_copy_id=keep)
                elif k == "section":
                    ret = dest.copy_section(src, children=act.get("deep", True), keep_id=keep, name=nm_)
                elif k == "property":
                    ret = dest.create_property(name=nm_, copy_from=src, keep_copy_id=keep)
                else:
                    raise core.MachineryError("Copy of kind %s" % k)
                self.bind_copy(act, ret)
            elif name == "DeleteAbsent":
                cont = self.container_of(act["owner"], act["kind"])
                choice = self.rnd.randrange(3)
                if choice == 0:
                    del cont["no such name %d" % self.rnd.randrange(10 ** 6)]
                elif choice == 1:
                    del cont[len(cont)]
                else:
                    del cont[-len(cont) - 1]
            else:
                raise core.MachineryError("unknown action %r" % name)
        except core.MachineryError:
            raise
        except Exception as exc:  # noqa
            return Outcome(False, exc)
        return Outcome(True)

    def alive_ids(self):
        """Ids of every entity reachable from the file, found with fresh handles only (top-down)."""
        ids = set()

        def walk(e, kind):
            try:
                ids.add(e.id)
            except Exception:  # noqa
                return
            for cname, ckind in CONTAINERS.get(kind, ()):
                try:
                    for c in getattr(e, cname):
                        walk(c, ckind)
                except Exception:  # noqa
                    pass
        try:
            for b in self.nf.blocks:
                walk(b, "block")
            for sec in self.nf.sections:
                walk(sec, "section")
        except Exception:  # noqa
            pass
        return ids

    def _reachable(self, num, alive=None):
        alive = self.alive_ids() if alive is None else alive
        return (self.uuid or {}).get(num) in alive

    def bind_copy(self, act, returned):
        """Registers the objects a successful copy created: same order as the specification numbers them."""
        src = act["src"]

        def in_sub(x):
            if not act.get("deep", True):
                # non-recursive section copy: the section and its properties
                return x == src or (self.meta[x][1] == src and self.meta[x][0] == "property")
            while x != 0:
                if x == src:
                    return True
                x = self.meta[x][1]
            return False
        alive = self.alive_ids()
        sub = sorted(x for x in self.meta if in_sub(x) and x < act["new"] and self._reachable(x, alive))
        newnum = {x: act["new"] + i for i, x in enumerate(sub)}
        self.copy_returned = None
        for x in sub:
            kind, owner, nametok = self.meta[x]
            nowner = act["dest"] if x == src else newnum[owner]
            nname = act["n"] if x == src else nametok
            cont = self.container_of(nowner, kind)
            if kind == "feature":
                sibs = [y for y in sub if self.meta[y][0] == "feature" and self.meta[y][1] == owner]
                handle = cont[sibs.index(x)]
            else:
                want = self.conc.name(nname)
                cands = [m for m in cont if m.name == want]
                if len(cands) != 1:
                    raise KeyError("copy of spec object %d (%s %r) not found in its container" % (x, kind, want[:30]))
                handle = cands[0]
            eid = self.eidnum.get(x, x) if act["keep"] else None
            self.remember(newnum[x], handle, kind, nowner, nname, eid=eid)
            if x == src:
                # the handle the call returned must denote the copy
                try:
                    self.copy_returned = (returned is not None and returned.id == handle.id
                                          and getattr(returned, "name", None) == getattr(handle, "name", None))
                except Exception:  # noqa
                    self.copy_returned = False

    def _del(self, cont, handle, linklist=False):
        how = self.rnd.randrange(5)
        members = list(cont)
        idx = [m.id for m in members].index(handle.id)
        nm = getattr(handle, "name", None)
        if how == 0 and nm and not core_is_uuidlike(nm):
            del cont[nm]
            return
        if how == 1:
            del cont[handle.id]
            return
        if how == 2:
            del cont[idx]
            return
        if how == 3:
            del cont[idx - len(members)]
            return
        del cont[handle]

    def _create_bad(self, act):
        k, p, why = act["kind"], act["owner"], act["why"]
        parent = self.nf if p == 0 else self.obj(p)
        good = self.free_name(p, k)
        self.last_free_name = good
        nm = {"EmptyName": "", "SlashName": "sl/ash", "EmptyType": good, "BadArgument": good}[why]
        tp = "" if why == "EmptyType" else self.conc.typ(1)
        if why == "BadArgument":
            v = self.rnd.randrange(3)
            if k == "array":
                if v == 0:
                    parent.create_data_array(nm, tp, dtype="no-such-type", shape=(2,))
                elif v == 1:
                    parent.create_data_array(nm, tp, data=["text", 1.5])
                else:
                    parent.create_data_array(nm, tp, data=[1.0], label=5)
            elif k == "frame":
                from collections import OrderedDict
                parent.create_data_frame(nm, tp, col_dict=OrderedDict([("a", np.int64), ("b", str)]), data=[("x", "y")])
            elif k == "tag":
                parent.create_tag(nm, tp, ["a", "b"] if v == 0 else ("abc" if v == 1 else [[1.0, 2.0], [3.0]]))
            else:
                parent.create_multi_tag(nm, tp, "abc" if v == 0 else ["a", "b"])
            return
        if k == "block":
            parent.create_block(nm, tp)
        elif k == "group":
            parent.create_group(nm, tp)
        elif k == "array":
            parent.create_data_array(nm, tp, data=self.conc.data(0))
        elif k == "frame":
            from collections import OrderedDict
            parent.create_data_frame(nm, tp, col_dict=OrderedDict([("a", np.int64), ("b", str)]), data=FRAME_ROWS)
        elif k == "tag":
            parent.create_tag(nm, tp, [1.0])
        elif k == "mtag":
            arrs = list(parent.data_arrays)
            parent.create_multi_tag(nm, tp, arrs[0] if arrs else [1.0, 2.0])
        elif k == "source":
            parent.create_source(nm, tp)
        elif k == "section":
            parent.create_section(nm, tp)
        elif k == "property":
            parent.create_property(nm, [1])


def core_is_uuidlike(s):
    import uuid
    try:
        uuid.UUID(str(s))
        return True
    except ValueError:
        return False


def project_extras(nf):
    """
    The descriptive attributes the entity-graph model does not carry (C02's "complete observable state"): label, unit,
    calibration, element type, extent and dimension descriptors of arrays; units and columns of data frames; position,
    extent and units of tags; reference / repository of sections; unit, uncertainty, data type, reference, dependency,
    value origin of properties.  Compared with itself across close + reopen.
    """
    def fl(x):
        return None if x is None else [float(v) for v in x]

    def dim(d):
        kind = d.dimension_type.value
        out = {"kind": kind, "label": _safe(lambda: d.label)}
        if kind == "sample":
            out.update(unit=_safe(lambda: d.unit), interval=_safe(lambda: d.sampling_interval), offset=_safe(lambda: d.offset))
        elif kind == "range":
            out.update(unit=_safe(lambda: d.unit), ticks=_safe(lambda: fl(d.ticks)))
        else:
            out.update(labels=_safe(lambda: list(d.labels)))
        return out

    def sec(s):
        return {"name": _safe(lambda: s.name), "reference": _safe(lambda: s.reference), "repository": _safe(lambda: s.repository),
                "props": _safe(lambda: [{"name": p.name, "unit": _safe(lambda p=p: p.unit), "uncertainty": _safe(lambda p=p: p.uncertainty),
                                         "dtype": _safe(lambda p=p: str(p.data_type)), "reference": _safe(lambda p=p: p.reference),
                                         "dependency": _safe(lambda p=p: p.dependency),
                                         "dependency_value": _safe(lambda p=p: p.dependency_value),
                                         "value_origin": _safe(lambda p=p: p.value_origin)} for p in s.props]),
                "sections": _safe(lambda: [sec(x) for x in s.sections])}
    out = {"blocks": [], "sections": _safe(lambda: [sec(s) for s in nf.sections])}
    for b in nf.blocks:
        bd = {"name": b.name, "arrays": [], "frames": [], "tags": [], "mtags": []}
        for a in b.data_arrays:
            bd["arrays"].append({"name": a.name, "label": _safe(lambda: a.label), "unit": _safe(lambda: a.unit),
                                 "coef": _safe(lambda: fl(a.polynom_coefficients)), "origin": _safe(lambda: a.expansion_origin),
                                 "dtype": _safe(lambda: str(a.dtype)), "shape": _safe(lambda: tuple(a.shape)),
                                 "dims": _safe(lambda: [dim(d) for d in a.dimensions])})
        for fr in b.data_frames:
            bd["frames"].append({"name": fr.name, "units": _safe(lambda: list(fr.units) if fr.units is not None else None),
                                 "columns": _safe(lambda: [(n, str(t)) for n, t in fr.columns] if fr.columns and len(fr.columns[0]) == 2
                                                  else [tuple(map(str, c)) for c in fr.columns])})
        for t in b.tags:
            bd["tags"].append({"name": t.name, "position": _safe(lambda: fl(t.position)), "extent": _safe(lambda: fl(t.extent)),
                               "units": _safe(lambda: list(t.units))})
        for t in b.multi_tags:
            bd["mtags"].append({"name": t.name, "units": _safe(lambda: list(t.units))})
        out["blocks"].append(bd)
    return out
