# -*- coding: utf-8 -*-
"""
C08 - tagged data is exactly the samples whose coordinates lie in the tagged region.

NixTagging enumerates referenced arrays (per dimension: descriptor, stored extent, unit case) x tags (position,
extent or none, stop rule, positions shorter than the rank) and defines the selected samples declaratively; TLC
checks ExactlyRegion, NoneMeansNone, ZeroIsPoint, RuleOnlyAtEnd, AgreesWithRangeIndices, BeyondIsWhole on every
vector.  Every vector is executed through a Tag, through one row of a MultiTag (1-D and 2-D position arrays) and -
for a seeded share - through tagged / indexed / untagged features.
"""
import os
import random
import zlib
from fractions import Fraction

import numpy as np

from . import core
from . import runner

_W = {}
NOEXT = -1


def init(opts):
    _W["opts"] = opts
    _W["nixio"] = core.import_nixio()
    _W["dir"] = os.path.join(opts["rundir"], "w%d" % os.getpid())
    os.makedirs(_W["dir"], exist_ok=True)
    _W["key"] = None
    _W["n"] = 0
    _W["nf"] = None


def _array_for(cfg, G):
    """(Re)build the scratch file for one referenced-array configuration; cached while the configuration repeats."""
    nixio = _W["nixio"]
    key = repr(cfg) + repr(G)
    if _W["key"] == key:
        return _W["objs"]
    if _W["nf"] is not None:
        _W["nf"].close()
    _W["n"] += 1
    nf = nixio.File.open(os.path.join(_W["dir"], "tag%d.nix" % (_W["n"] % 2)), nixio.FileMode.Overwrite)
    _W["nf"] = nf
    blk = nf.create_block("b", "t")
    shape = tuple(dc["n"] for dc in cfg)
    ref = (np.arange(int(np.prod(shape)), dtype=np.float64) + 1.0).reshape(shape)
    R = 3

    def describe(da):
        for dc in cfg:
            d, uc = dc["d"], dc["uc"]
            unit = (uc["dp"] + uc["du"]) or None
            if d["kind"] == "sampled":
                da.append_sampled_dimension(d["iv"] / G, offset=d["off"] / G, unit=unit)
            elif d["kind"] == "range":
                da.append_range_dimension(ticks=[t / G for t in d["ticks"]], unit=unit)
            else:
                da.append_set_dimension(labels=["l%d" % i for i in range(d["n"])] or None)

    da = blk.create_data_array("ref", "t", data=ref)
    describe(da)
    fa = blk.create_data_array("feat", "t", data=-ref)
    describe(fa)
    if _W["opts"].get("calibrated"):
        # C15: reads through tags and features are calibrated like every other read (c0 + c1 * (x - origin), exact in double)
        for arr in (da, fa):
            arr.polynom_coefficients = [1.0, 2.0]
            arr.expansion_origin = 0.5
    ia = blk.create_data_array("indexed", "t", data=np.arange(R * 2, dtype=np.float64).reshape((R, 2)) + 500.0)
    ua = blk.create_data_array("untagged", "t", data=np.arange(4, dtype=np.float64) + 900.0)
    tag = blk.create_tag("tag", "t", [0.0])
    tag.references.append(da)
    tag.create_feature(fa, nixio.LinkType.Tagged)
    tag.create_feature(ua, nixio.LinkType.Untagged)
    objs = {"blk": blk, "ref": ref, "da": da, "fa": fa, "ia": ia, "ua": ua, "tag": tag, "R": R, "mtags": {}}
    _W["key"], _W["objs"] = key, objs
    return objs


def _mtag_for(objs, L, oned, intpos=False):
    """A multi-tag with R positions of length L (position / extent arrays 1-D iff oned; positions stored as int64 iff intpos)."""
    nixio = _W["nixio"]
    k = (L, oned, intpos)
    if k in objs["mtags"]:
        return objs["mtags"][k]
    blk, R = objs["blk"], objs["R"]
    shp = (R,) if oned else (R, L)
    k = (L, int(oned), int(intpos))
    pos = blk.create_data_array("pos%d%d%d" % k, "t", data=np.zeros(shp, dtype=np.int64 if intpos else np.float64))
    ext = blk.create_data_array("ext%d%d%d" % k, "t", data=np.zeros(shp))
    mt = blk.create_multi_tag("mt%d%d%d" % k, "t", pos)
    mt.references.append(objs["da"])
    mt.create_feature(objs["fa"], nixio.LinkType.Tagged)
    mt.create_feature(objs["ia"], nixio.LinkType.Indexed)
    mt.create_feature(objs["ua"], nixio.LinkType.Untagged)
    objs["mtags"][(L, oned, intpos)] = (mt, pos, ext)
    return objs["mtags"][(L, oned, intpos)]


def _exact_tag_numbers(x, e, G, s):
    """
    Position / extent in the tag's unit such that the library's own float arithmetic (pos*s, ext*s + pos*s)
    reproduces the grid coordinates exactly; None when no such float exists (the vector is skipped, counted).
    """
    target_a = x / G
    p = float(Fraction(x, int(G)) / Fraction(s))
    if p * s != target_a:
        return None
    if e == NOEXT:
        return p, None
    ee = float(Fraction(e, int(G)) / Fraction(s))
    if ee * s + p * s != (x + e) / G:
        return None
    return p, ee


def replay_one(vec):
    nixio = _W["nixio"]
    from nixio import SliceMode
    from nixio.util import units as U
    res = {"findings": [], "vectors": 0, "skipped_inexact": 0, "calls": 0,
           "classes": {}}
    cfg, t, r = vec["cfg"], vec["q"]["t"], vec["r"]
    G = float(vec["g"])
    L = len(t["pos"])
    rank = len(cfg)
    rule = SliceMode.Inclusive if t["sm"] == "inclusive" else SliceMode.Exclusive
    h = zlib.crc32(repr((cfg, t)).encode()) + _W["opts"]["seed"]
    rnd = random.Random(h)
    # numbers written into the tag
    pos, ext, units = [], [], []
    anyunit = any(r["tagunits"][i] for i in range(L))
    for i in range(L):
        tu = r["tagunits"][i]
        du = r["dimunits"][i]
        s = 1.0
        if tu and du and r["outcome"] != "incompatible":
            s = float(U.scaling(tu, du))
            if s != 10.0 ** r["k10"][i] and abs(s / 10.0 ** r["k10"][i] - 1) > 1e-12:
                res["findings"].append({"key": "scaling_differs_from_unit_table", "detail": {"tag": tu, "dim": du, "s": s,
                                        "k10": r["k10"][i]}, "replay": vec})
                return res
        nums = _exact_tag_numbers(t["pos"][i], t["ext"][i], G, s)
        if nums is None:
            res["skipped_inexact"] = 1
            return res
        pos.append(nums[0])
        ext.append(nums[1])
        units.append(tu)
    objs = _array_for(cfg, G)
    ref = objs["ref"]
    has_ext = ext[0] is not None
    kinds = "+".join(dc["d"]["kind"] for dc in cfg)
    ucls = "units" if anyunit else "nounits"
    res["vectors"] = 1
    cls = "%s/%s/%s" % (r["outcome"], kinds, ucls)
    res["classes"][cls] = 1

    want = None
    cal = (lambda x: 1.0 + 2.0 * (x - 0.5)) if _W["opts"].get("calibrated") else (lambda x: x)
    if r["outcome"] == "data":
        sl = tuple(slice(d["lo"], d["hi"] + 1) for d in r["dims"])
        want = cal(ref[sl])
    past = any(d.get("past") for d in r["dims"])

    def judge(label, call, want_arr, outcome):
        """call() -> DataView ; compares with the expectation of the specification"""
        res["calls"] += 1
        key = "%s/rank%d/%s/%s/%s" % (label, rank, kinds, ucls, outcome)
        try:
            view = call()
            valid = view.valid
            got = np.asarray(view[:])
        except IndexError as exc:
            if outcome == "data" and not past:
                res["findings"].append({"key": key + "/refused", "detail": {"array": cfg, "tag": t, "position": pos,
                                        "extent": ext, "units": units, "raised": repr(exc)[:160],
                                        "expected": repr(want_arr)[:200]}, "replay": vec})
            return
        except Exception as exc:  # noqa
            if outcome == "incompatible":
                return
            if outcome == "data":
                res["findings"].append({"key": key + "/raises_%s" % type(exc).__name__,
                                        "detail": {"array": cfg, "tag": t, "position": pos, "extent": ext, "units": units,
                                                   "raised": repr(exc)[:160]}, "replay": vec})
            else:
                res["findings"].append({"key": key + "/wrong_error_%s" % type(exc).__name__,
                                        "detail": {"array": cfg, "tag": t, "position": pos, "extent": ext, "units": units,
                                                   "raised": repr(exc)[:160]}, "replay": vec})
            return
        if outcome == "data":
            if not valid and past:
                return
            if (not valid) or got.shape != want_arr.shape or not np.array_equal(got, want_arr):
                res["findings"].append({"key": key + "/other_data",
                                        "detail": {"array": cfg, "tag": t, "position": pos, "extent": ext, "units": units,
                                                   "stop_rule": t["sm"], "valid": valid, "expected": repr(want_arr)[:200],
                                                   "observed": repr(got)[:200]}, "replay": vec})
        else:
            if valid or got.size != 0:
                res["findings"].append({"key": key + "/data_returned",
                                        "detail": {"array": cfg, "tag": t, "position": pos, "extent": ext, "units": units,
                                                   "stop_rule": t["sm"], "valid": valid, "observed": repr(got)[:200],
                                                   "expected": "empty invalid view or an out-of-bounds error"
                                                   if outcome == "none" else "units cannot be converted: an error"},
                                        "replay": vec})

    # ---- Tag ----
    tag = objs["tag"]
    tag.position = pos
    tag.extent = ext if has_ext else None
    tag.units = units if anyunit else None
    judge("tag", lambda: tag.tagged_data(0, rule), want, r["outcome"])
    # the same live Tag object after a dimension of the referenced array was re-described in another prefix: the
    # coordinates keep their numbers, so the tag's numbers change with the scale and the selected samples stay
    if anyunit and r["outcome"] == "data" and rnd.random() < 0.2:
        _redescribed(objs, cfg, t, r, G, U, tag, rule, judge, want, res)
    feats = rnd.random() < 0.25
    if feats:
        judge("tag_feature_tagged", lambda: tag.feature_data(0, rule), None if want is None else cal(-ref[sl]), r["outcome"])
        judge("tag_feature_untagged", lambda: tag.feature_data(1, rule), objs["ua"][:], "data")
    # ---- MultiTag: the same region as row k of R positions ----
    R = objs["R"]
    oned = (L == 1 and rnd.random() < 0.5)
    # positions that are whole numbers are also stored in an integer-typed positions array (extents stay fractional)
    intpos = all(float(p).is_integer() for p in pos) and rnd.random() < 0.5
    mt, pda, eda = _mtag_for(objs, L, oned, intpos)
    k = rnd.randrange(R)
    rows = np.array([[rnd.choice([0.0, 1.0, 2.0] if intpos else [0.0, 0.25, 1.0, 2.5]) for _ in range(L)] for _ in range(R)])
    erows = np.array([[rnd.choice([0.0, 0.5, 1.0]) for _ in range(L)] for _ in range(R)])
    rows[k] = pos
    if has_ext:
        erows[k] = ext
    if oned:
        pda[:] = rows[:, 0]
        eda[:] = erows[:, 0]
    else:
        pda[:] = rows
        eda[:] = erows
    cur = mt.extents
    if has_ext and cur is None:
        mt.extents = eda
    elif not has_ext and cur is not None:
        mt.extents = None
    mt.units = units if anyunit else None
    lab = ("mtag1d" if oned else "mtag") + ("_intpos" if intpos else "")
    judge(lab, lambda: mt.tagged_data(k, 0, rule), want, r["outcome"])
    if feats:
        judge(lab + "_feature_tagged", lambda: mt.feature_data(k, 0, rule), None if want is None else cal(-ref[sl]), r["outcome"])
        judge(lab + "_feature_indexed", lambda: mt.feature_data(k, 1, rule), objs["ia"][:][k:k + 1], "data")
        judge(lab + "_feature_untagged", lambda: mt.feature_data(k, 2, rule), objs["ua"][:], "data")
    return res


OTHER_PREFIX = {"": "m", "m": "u", "u": "m", "k": ""}


def _redescribed(objs, cfg, t, r, G, U, tag, rule, judge, want, res):
    L = len(t["pos"])
    dims = list(objs["da"].dimensions)
    newunits, newpos, newext = {}, [], []
    for i in range(L):
        tu, du = r["tagunits"][i], r["dimunits"][i]
        if not (tu and du):
            nums = _exact_tag_numbers(t["pos"][i], t["ext"][i], G, 1.0)
        else:
            uc = cfg[i]["uc"]
            nd = OTHER_PREFIX[uc["dp"]] + uc["du"]
            s = float(U.scaling(tu, nd))
            nums = _exact_tag_numbers(t["pos"][i], t["ext"][i], G, s)
            newunits[i] = nd
        if nums is None:
            return
        newpos.append(nums[0])
        newext.append(nums[1])
    if not newunits:
        return
    old = {i: dims[i].unit for i in newunits}
    oldpos, oldext = list(tag.position), (list(tag.extent) or None)
    try:
        for i, nd in newunits.items():
            dims[i].unit = nd
        tag.position = newpos
        if newext[0] is not None:
            tag.extent = newext
        res["redescribed"] = res.get("redescribed", 0) + 1
        judge("tag_after_dimension_unit_change", lambda: tag.tagged_data(0, rule), want, "data")
    finally:
        for i, u in old.items():
            dims[i].unit = u
        tag.position = oldpos
        tag.extent = oldext


def label(vec):
    return "%s/rank%d" % (vec["r"]["outcome"], len(vec["cfg"]))


def run(tier, seed, verdict):
    quick = tier != "thorough"
    mk = lambda cfg, stride: runner.ExportRun("MC_NixTagging", cfg, seed, "harness.c08", stride=stride,  # noqa
                                              label=label, batch=200)
    if quick:
        runs = [mk("MC_C08_r1_quick.cfg", 1), mk("MC_C08_r2_quick.cfg", 2), mk("MC_C08_r3_quick.cfg", 3)]
    else:
        runs = [mk("MC_C08_r1.cfg", 1), mk("MC_C08_r2.cfg", 1), mk("MC_C08_r3.cfg", 1)]
    level, cov, assumptions = runner.assemble(
        "C08", verdict, runs,
        rule="TLC enumerates referenced arrays of rank 1, 2 and 3 (per dimension: sampled / range / set descriptor incl. "
             "negative offsets, fractional intervals, repeated ticks, unlabeled sets; stored extent; tag-unit / "
             "dimension-unit case incl. both-prefixed, up- and down-scaling, missing and non-convertible units) x tags "
             "(region start on / between / before / beyond samples, extent none / 0 / between / on-sample / past the "
             "end, both stop rules, positions shorter than the rank); each vector is executed through Tag.tagged_data, "
             "through one row of a MultiTag (2-D and 1-D position and extent arrays, other rows random) and - for a "
             "seeded quarter - through tagged, indexed and untagged features; data must equal exactly the index "
             "ranges of the specification, 'none' must be an empty invalid view or an IndexError-family error",
        assumptions=["coordinates on a grid of 1/4; tag numbers are generated only where the library's own float "
                     "arithmetic (position*scale, extent*scale+start) reproduces the grid value exactly (others are "
                     "counted as skipped_inexact), so np.isclose tolerances never decide",
                     "a region reaching beyond the last tick / label of a bounded descriptor may be refused (tolerated)",
                     "negative extents, unit lists shorter than the position, and tags mixing unit / no unit over "
                     "non-set dimensions are left open; indexed features of a single Tag are not judged",
                     "rank 3 is enumerated with one descriptor of each kind in every order, two unit cases, positions of "
                     "length 3 and 2"],
        tlc_props=["ExactlyRegion", "NoneMeansNone", "ZeroIsPoint", "RuleOnlyAtEnd", "AgreesWithRangeIndices",
                   "BeyondIsWhole"],
        need=("data/rank1", "none/rank1", "incompatible/rank1", "data/rank2", "none/rank2", "data/rank3", "none/rank3"))
    if not cov["counters"].get("vectors"):
        raise core.MachineryError("no vector executed")
    return level, cov, assumptions


def replay(path):
    import json
    with open(path) as fh:
        rec = json.load(fh)
    with core.Scratch("c08r") as tmp:
        init({"seed": rec.get("seed", 0), "rundir": tmp})
        res = replay_one(rec["replay"])
        hit = False
        for f in res["findings"]:
            print("MISMATCH key=%s\n  %s" % (f["key"], json.dumps(f["detail"], default=repr)[:900]))
            hit = hit or f["key"] == rec["key"]
        if _W["nf"] is not None:
            _W["nf"].close()
    print("recorded key %s: %s" % (rec["key"], "REPRODUCED" if hit else "not reproduced"))
    if hit:
        print("VIOLATION property=C08 replay=%s" % path)
    return 1 if hit else 0
