#!/bin/sh
# tools_seedqueue.sh <round-dir> <suffix> <id>... : for each candidate <round-dir>/<id>/SEED copies it to
# seeded/_incoming/<id>-<suffix>, confirms it (tools_seedvalidate.sh) and runs the check of its property on it
# (tools_seedrun.sh, quick tier), one after the other.  Results: /dev/shm/seedval/<name>.out, /dev/shm/seedq/<name>.out
RD=$1; SUF=$2; shift 2
cd "$(dirname "$0")"; mkdir -p seeded/_incoming /dev/shm/seedq /dev/shm/seedval
for id in "$@"; do
  N=$id-$SUF
  rm -rf seeded/_incoming/$N; cp -r $RD/$id/SEED seeded/_incoming/$N
  ./tools_seedvalidate.sh seeded/_incoming/$N > /dev/shm/seedval/$N.out 2>&1
  ./tools_seedrun.sh seeded/_incoming/$N quick > /dev/shm/seedq/$N.out 2>&1
done
